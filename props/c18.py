"""C18 - no hidden state: results depend only on explicit inputs, also across threads.

The same scripted sessions (deterministic given their case text and RNG bytes) are executed under
different placements - sequential, permuted, operation-granular interleaving on one thread, worker
threads, per-operation migration between threads with injected yields/sleeps, concurrent exports
through a shared reference - and every session's transcript must be byte-identical to the
sequential one.  ThreadSanitizer (and Miri in the thorough tier) watch the same executions for data
races; a compile-time probe checks Send + Sync for the public types of every suite."""
import collections
import os
import re
import subprocess

from lib import caselang as cl
from lib import framework as fw
from lib import gen

RULE = ("one case = one session transcript under one placement compared with its sequential transcript; distinct = distinct "
        "(session, placement) pairs that were compared, and the evidence reports how many distinct global operation orders and "
        "(operation -> thread) placements the schedule traces actually show")
ASSUMPTIONS = ["sessions are deterministic given the case (scripted RNG); the sequential run is the reference execution",
               "the Send + Sync part is a compile-time observation and is labelled as such",
               "ThreadSanitizer sees races only in code the workload executes; -Zbuild-std instruments std and all dependencies"]

IGNORE = ("lb", "la", "l")  # global ledger read-outs legitimately depend on what else ran


def build(env, per_cell, with_par=True):
    g = gen.G(env.rnd)
    rnd = env.rnd
    cw = cl.CaseW()
    # the very first session makes every kind of FAILING call once (small-order keys, invalid keys, bad tags,
    # too-long exports): whatever a failure leaves behind in the process has to be harmless for all later sessions
    from ref import curves as _curves
    for kem in gen.KEMS:
        s = cw.session(kem, 1, 1, sid="n%d" % len(cw.sessions))
        gen.add_keys(s, g, kem, "kR")
        gen.add_keys(s, g, kem, "kS")
        bad = _curves.X25519_SMALL_ORDER[0].hex() if kem == 0x0020 else "$kR.pk^flip:9"
        for mode in gen.MODES:
            pa = dict(psk="aa", pskid="bb") if mode in (1, 3) else {}
            s.call("setup_r", mode=mode, skr="$kR.sk", enc=bad, info="-", out="F", pks="$kS.pk" if mode in (2, 3) else None, **pa)
            s.call("setup_s", mode=mode, pkr=bad, info="-", rng=g.rbytes(gen.nsk(kem)), out="F2",
                   sks="$kS.sk" if mode in (2, 3) else None, pks="$kS.pk" if mode in (2, 3) else None, **pa)
        s.call("decap", skr="$kR.sk", enc=bad)
        s.call("encap", pkr=bad, rng=g.rbytes(gen.nsk(kem)))
        if kem == 0x0020:
            s.call("decap", skr="$kR.sk", enc="$kR.pk", pks=bad)
    for (kem, kdf, aead) in gen.suites(sealing_only=False):
        for mode in gen.MODES:
            for j in range(per_cell):
                s = cw.session(kem, kdf, aead, sid="n%d" % len(cw.sessions))
                gen.add_pair(s, g, kem, mode, info=g.rbytes(rnd.choice([0, 6, 40])))
                nm = rnd.randrange(1, 6) if aead != 0xFFFF else 0
                for i in range(nm):
                    # decoy contexts created and dropped between operations
                    if rnd.random() < 0.3:
                        s.call("setup_s", mode=0, pkr="$kR.pk", info="dd", rng=g.rbytes(gen.nsk(kem)), out="D")
                        s.call("drop", ctx="D")
                    api = rnd.choice(["alloc", "inplace"])
                    s.call("seal", ctx="S", api=api, pt=g.rbytes(rnd.choice([0, 1, 16, 40, 300])), aad=g.rbytes(rnd.choice([0, 3])), out="m%d" % i)
                    if rnd.random() < 0.2:
                        s.call("open", ctx="R", api="alloc", ct="$m%d.full^flip:1" % i, aad="-")
                for i in range(nm):
                    aad = [l for l in s.lines if " out=m%d" % i in l][0].split(" aad=")[1].split()[0]
                    s.call("open", ctx="R", api=rnd.choice(["alloc"]), ct="$m%d.full" % i, aad=aad)
                for L in (16, 32):
                    s.call("export", ctx="S", exctx="aa", len=L)
                    s.call("export", ctx="R", exctx="aa", len=L)
                if with_par:
                    s.call("export_par", ctx=rnd.choice("SR"), exctx=g.rbytes(4), len=rnd.choice([1, 32, 100]), threads=rnd.choice([2, 4, 8]), reps=rnd.choice([1, 20]))
                    # different small values exported concurrently from one context, many times
                    s.call("export_par", ctx=rnd.choice("SR"), exctx=g.rbytes(rnd.choice([0, 3, 15])), len=rnd.choice([8, 16, 32]), threads=rnd.choice([4, 8]),
                           reps=rnd.choice([100, 1000]), vary=1)
                    s.call("export", ctx="S", exctx="bb", len=8)
                    # key objects deserialized once and used concurrently by several threads for the first time
                    m2 = dict(mode=mode)
                    if mode in (1, 3):
                        m2.update(psk=[l for l in s.lines if " setup_s " in l][0].split(" psk=")[1].split()[0], pskid=[l for l in s.lines if " setup_s " in l][0].split(" pskid=")[1].split()[0])
                    s.call("setup_r_par", skr="$kR.sk", enc="$S.enc", info="-", threads=rnd.choice([4, 8]), pks="$kS.pk" if mode in (2, 3) else None, **m2)
                    s.call("setup_s_par", pkr="$kR.pk", info="-", rng=g.rbytes(gen.nsk(kem)), threads=rnd.choice([4, 8]),
                           sks="$kS.sk" if mode in (2, 3) else None, pks="$kS.pk" if mode in (2, 3) else None, **m2)
                s.call("gen_keypair", rng=g.rbytes(gen.nsk(kem)))
    return cw


def build_plain(env):
    """sessions without any driver-made threads: what the LIBRARY does with threads is then visible to strace"""
    g = gen.G(env.rnd)
    cw = cl.CaseW()
    for kem in gen.KEMS:
        for mode in gen.MODES:
            aead = gen.ALL_AEADS[(kem + mode) % 4]
            s = cw.session(kem, gen.KDFS[mode % 3], aead, sid="pl%04x_%d" % (kem, mode))
            gen.add_pair(s, g, kem, mode)
            if aead != 0xFFFF:
                s.call("seal", ctx="S", api="alloc", pt="0102", aad="-", out="m")
                s.call("open", ctx="R", api="alloc", ct="$m.full", aad="-")
                s.call("ss_seal", mode=0, pkr="$kR.pk", info="-", pt="01", aad="-", rng=g.rbytes(gen.nsk(kem)), api="alloc", out="q")
                s.call("ss_open", mode=0, skr="$kR.sk", enc="$q.enc", info="-", ct="$q.full", aad="-", api="alloc")
            s.call("export", ctx="R", exctx="-", len=32)
    return cw


def thread_creation_probe(env):
    """The library must not create threads of its own (its results must not depend on whether the process can):
    a sequential run of driver-thread-free sessions under strace must show no clone(CLONE_THREAD)."""
    import shutil
    if not shutil.which("strace"):
        env.note("strace not available: thread-creation probe skipped")
        return
    text = build_plain(env).text()
    for b in ("checked", "checked-std"):
        out = os.path.join(env.work, "strace.%s.out" % b)
        if os.path.exists(out):
            os.remove(out)
        res = env.drive("plain", text, build=b, wrapper=["strace", "-f", "-qq", "-e", "trace=clone,clone3", "-o", out])
        if res.timed_out or res.rc != 0 or not os.path.exists(out):
            env.note("thread-creation probe on %s did not run (rc %s)" % (b, res.rc))
            continue
        lines = [l for l in open(out) if "CLONE_THREAD" in l or "clone3(" in l]
        env.count("evaluations", 1)
        env.extra_cov.setdefault("threads_created_by_library", {})[b] = len(lines)
        if lines:
            env.violation("C18:library_creates_threads", "during a sequential run in which the driver creates no threads, %d thread(s) were created on the %s build: the library's results depend on the process being able to create threads (strace: %s)" % (len(lines), b, lines[0].strip()[:120]), workload="placement")
        else:
            env.seen(("no_threads", b))


def teardown_probe(env):
    """the library used from a thread-local destructor while a thread exits (std build: std-only thread-locals)"""
    g = gen.G(env.rnd)
    cw = cl.CaseW()
    for i, kem in enumerate(gen.KEMS):
        s = cw.session(kem, gen.KDFS[i % 3], gen.SEAL_AEADS[i % 3], sid="td%d" % i)
        gen.add_keys(s, g, kem, "kR")
        s.call("tls_teardown", skr="$kR.sk", pkr="$kR.pk", rng=g.rbytes(gen.nsk(kem)))
    for b in ("checked", "checked-std"):
        res = env.drive("teardown", cw.text(), build=b)
        if res.timed_out:
            env.inconclusive.append("teardown probe: watchdog")
            continue
        for ss in res.sessions:
            for o in (ss.all_ops or ss.ops):
                if o.op != "tls_teardown":
                    continue
                env.count("evaluations", 1)
                if o.ret is None:
                    env.violation("C18:aborts_during_thread_teardown", "a round trip made from a thread-local destructor while its thread exits killed the process (%s build, exit %s): the library's behaviour depends on the state of the thread it runs on" % (b, res.rc),
                                  case_text=ss.case_text(o.id), workload="placement")
                elif o.ret.get("body") != "ok" or o.ret.get("in_destructor") != "ok":
                    env.violation("C18:differs_during_thread_teardown", "round trip in the thread body: %s; the same round trip from a thread-local destructor during thread exit: %s (%s build)" % (o.ret.get("body"), o.ret.get("in_destructor"), b),
                                  case_text=ss.case_text(o.id), workload="placement")
                elif o.ret.get("in_unwind", "ok") != "ok":
                    env.violation("C18:differs_while_unwinding", "the same round trip made from a destructor that runs while a panic unwinds the thread: %s (thread body: ok; %s build)" % (o.ret.get("in_unwind"), b),
                                  case_text=ss.case_text(o.id), workload="placement")
                else:
                    env.seen(("teardown", ss.ids[0], b))
                    env.count("round_trips_from_thread_local_destructor", 1)


SETTER_PROBE = """// generated by props/c18.py: does calling a (new) setter-shaped public function change what later calls return?
use hpke::{aead::{AeadTag, AesGcm128}, kdf::HkdfSha256, kem::{DhP256HkdfSha256, X25519HkdfSha256}, Deserializable, Kem, OpModeR, OpModeS, PskBundle, Serializable};
use hpke::rand_core::{CryptoRng, RngCore};
struct Z(u8);
impl RngCore for Z {
    fn next_u32(&mut self) -> u32 { self.0 = self.0.wrapping_mul(13).wrapping_add(7); self.0 as u32 }
    fn next_u64(&mut self) -> u64 { self.next_u32() as u64 }
    fn fill_bytes(&mut self, d: &mut [u8]) { for b in d.iter_mut() { *b = self.next_u32() as u8 } }
}
impl CryptoRng for Z {}
fn hex(b: &[u8]) -> String { b.iter().map(|x| format!("{:02x}", x)).collect() }
fn session<K: Kem>(out: &mut String, tag: &str) {
    let (skr, pkr) = K::derive_keypair(b"recipient keying material 0123456789abcdef0123456789abcdef0123456789");
    let (sks, pks) = K::derive_keypair(b"sender keying material 0123456789abcdef0123456789abcdef0123456789abc");
    out.push_str(&format!("{} pk {}\n", tag, hex(&pkr.to_bytes())));
    for (psk, id) in [(&b""[..], &b""[..]), (&b"k"[..], &b"i"[..]), (&b"0123456789abcdef"[..], &b"id3"[..]), (&[7u8; 40][..], &b"identity"[..]), (&b"lone"[..], &b""[..]), (&b""[..], &b"lone"[..])] {
        let b = PskBundle::new(psk, id);
        out.push_str(&format!("{} bundle {}/{} -> {:?}\n", tag, psk.len(), id.len(), b.as_ref().map(|_| ()).map_err(|e| format!("{:?}", e))));
        let Ok(b) = b else { continue };
        for mode in 0..4 {
            let (ms, mr) = match mode {
                0 => (OpModeS::Base, OpModeR::Base),
                1 => (OpModeS::Psk(b), OpModeR::Psk(b)),
                2 => (OpModeS::Auth((sks.clone(), pks.clone())), OpModeR::Auth(pks.clone())),
                _ => (OpModeS::AuthPsk((sks.clone(), pks.clone()), b), OpModeR::AuthPsk(pks.clone(), b)),
            };
            let s = hpke::setup_sender::<AesGcm128, HkdfSha256, K, _>(&ms, &pkr, b"info", &mut Z(mode as u8));
            let Ok((enc, mut cs)) = s else { out.push_str(&format!("{} mode {} setup_s {:?}\n", tag, mode, s.map(|_| ()).map_err(|e| format!("{:?}", e)))); continue };
            let mut m = *b"a message to seal";
            let t = cs.seal_in_place_detached(&mut m, b"aad").map(|t| hex(&t.to_bytes()));
            let mut e = [0u8; 24];
            let ex = cs.export(b"ctx", &mut e).map(|_| hex(&e));
            out.push_str(&format!("{} mode {} enc {} ct {} tag {:?} export {:?}\n", tag, mode, hex(&enc.to_bytes()), hex(&m), t, ex));
            match hpke::setup_receiver::<AesGcm128, HkdfSha256, K>(&mr, &skr, &enc, b"info") {
                Ok(mut cr) => {
                    if let Ok(t) = t {
                        let tag_ = AeadTag::<AesGcm128>::from_bytes(&(0..t.len() / 2).map(|i| u8::from_str_radix(&t[2 * i..2 * i + 2], 16).unwrap()).collect::<Vec<u8>>()).unwrap();
                        let r = cr.open_in_place_detached(&mut m, b"aad", &tag_);
                        out.push_str(&format!("{} mode {} open {:?} {}\n", tag, mode, r, hex(&m)));
                    }
                }
                Err(e) => out.push_str(&format!("{} mode {} setup_r {:?}\n", tag, mode, e)),
            }
        }
    }
}
fn transcript() -> String {
    let mut out = String::new();
    session::<X25519HkdfSha256>(&mut out, "x25519");
    session::<DhP256HkdfSha256>(&mut out, "p256");
    out
}
fn main() {
    let which: usize = std::env::args().nth(1).unwrap().parse().unwrap();
    let before = transcript();
    match which {
@CALLS@
        _ => { println!("NO_SUCH_CALL"); return; }
    }
    let after = transcript();
    if before == after {
        println!("SAME {} lines", before.lines().count());
    } else {
        let d = before.lines().zip(after.lines()).find(|(a, b)| a != b);
        println!("DIFFERS {:?}", d);
    }
}
"""


def new_api_probe(env):
    """Functions that were not part of the public surface the workloads were written for (api_surface.json) cannot be
    driven by them.  The one shape that can be driven without knowing what it means is a setter: a public function
    without `self` whose parameters are integers or booleans.  A fixed transcript (bundles, setups in all modes,
    seal/open/export on two KEMs) is produced before and after calling it with a few values, one process per call:
    'does not depend on earlier library calls'."""
    import json
    from lib import apisurface
    d, why = apisurface.rustdoc_json()
    if d is None:
        env.note("public surface not inspected: %s" % why)
        return
    with open(os.path.join(fw.VERIF, "api_surface.json")) as fh:
        known = set(json.load(fh)["facts"])
    now = apisurface.surface(d)
    added = [f for f in now if f not in known]
    env.extra_cov["public_surface"] = {"items": len(now), "not_in_recorded_surface": added[:40], "missing_from_recorded_surface": [f for f in sorted(known) if f not in set(now)][:40]}
    cands = {f: v for f, v in apisurface.plain_callables(d).items() if f in added}
    if not cands:
        return
    values = {"bool": ["true", "false"]}
    calls, labels = [], []
    for f, (owner, name, tys) in sorted(cands.items()):
        for k in range(4):
            args = []
            for t in tys:
                vs = values.get(t) or ["0", "1", "32", "%s::MAX" % t]
                args.append("%s as %s" % (vs[k % len(vs)], t) if t != "bool" else vs[k % len(vs)])
            labels.append((f, owner, name, args))
    # the owner's public path is not in the JSON in usable form (private modules, re-exports): try the usual places
    for prefix in ("hpke::", "hpke::aead::", "hpke::kem::", "hpke::kdf::"):
        body = "\n".join("        %d => { let _ = %s%s%s(%s); }" % (i, prefix, (o + "::") if o else "", n, ", ".join(a)) for i, (f, o, n, a) in enumerate(labels))
        cdir = os.path.join(env.work, "setterprobe")
        os.makedirs(os.path.join(cdir, "src"), exist_ok=True)
        with open(os.path.join(cdir, "Cargo.toml.in"), "w") as fh:
            fh.write('[package]\nname = "hpke-verif-probe-setter"\nversion = "0.0.0"\nedition = "2021"\npublish = false\n\n[dependencies]\n'
                     'hpke = { path = "@REPO@", default-features = false, features = ["alloc", "x25519", "p256"] }\n\n[workspace]\n')
        with open(os.path.join(cdir, "src", "main.rs"), "w") as fh:
            fh.write(SETTER_PROBE.replace("@CALLS@", body))
        fw.prepare_crate(cdir)
        tdir = os.path.join(fw.VERIF, "target", "probe")
        p = subprocess.run(["cargo", "build", "--offline", "--target-dir", tdir], cwd=cdir, env=dict(fw.BASE_ENV), stdout=subprocess.PIPE, stderr=subprocess.STDOUT, text=True, timeout=1800)
        if p.returncode != 0:
            continue
        binary = os.path.join(tdir, "debug", "hpke-verif-probe-setter")
        for i, (f, o, n, a) in enumerate(labels):
            r = subprocess.run([binary, str(i)], stdout=subprocess.PIPE, stderr=subprocess.STDOUT, text=True, timeout=600)
            env.count("evaluations", 1)
            if r.stdout.startswith("DIFFERS") or r.returncode != 0:
                env.violation("C18:depends_on_earlier_call:%s" % n, "after calling %s%s%s(%s) the same calls with the same arguments give different results: %s" % (
                    prefix, (o + "::") if o else "", n, ", ".join(a), r.stdout[:400]), workload="placement")
            elif r.stdout.startswith("SAME"):
                env.seen(("setter-probe", f, i))
        env.extra_cov["public_surface"]["setter_shaped_additions_driven"] = sorted(cands)
        return
    env.note("new setter-shaped functions %s could not be called from a generated program (no public path found)" % sorted(cands))


def budget_probe(env):
    """Hidden process-wide budgets: 70 000 contexts alive at once, 70 000 exports from one context, 70 000 failed receiver
    setups in a row (a 16-bit slot table, use counter or lock-out) - the same setup must give the same result before,
    during and after.  X25519 (fast) for all three, one NIST KEM for the live contexts."""
    g = gen.G(env.rnd)
    cw = cl.CaseW()
    n = env.pick(70000, 300000)
    plan = ((0x0020, ("live", "exports", "failed")),) if env.quick() else ((0x0020, ("live", "exports", "failed")), (0x0010, ("live", "failed")), (0x0012, ("exports",)))
    for i, (kem, kinds) in enumerate(plan):
        aead = (1, 3, 0xFFFF)[i % 3]
        s = cw.session(kem, 1, aead, sid="bud%d" % i)
        gen.add_keys(s, g, kem, "kR")
        badenc = "00" * 32 if kem == 0x0020 else "04" + "00" * 64
        for kind in kinds:
            s.call("budget", kind=kind, n=n if kem == 0x0020 or kind != "live" else n // 10, pkr="$kR.pk", skr="$kR.sk", rng=g.raw(gen.nsk(kem)).hex() + "aa" * 8, badenc=badenc)
    for b in ("checked", "checked-std"):
        res = env.drive("budget", cw.text(), build=b, timeout=3600)
        if res.timed_out:
            env.inconclusive.append("budget probe: watchdog")
            continue
        for ss in res.sessions:
            for o in (ss.all_ops or ss.ops):
                if o.op != "budget":
                    continue
                env.count("evaluations", 1)
                if o.ret is None or "ok" not in o.ret:
                    env.violation("C18:budget:%s:%s" % (o.args["kind"], o.outcome()), "%s x %s: %s (%s build)" % (o.args["n"], o.args["kind"], o.outcome(), b), case_text=ss.case_text(o.id), workload="placement")
                elif o.ret.get("mism") != "0":
                    env.violation("C18:depends_on_process_history:%s" % o.args["kind"], "the same setup with the same RNG bytes gives a different result %s (%s; %s build)" % (
                        {"live": "while / after %s other contexts are alive" % o.args["n"], "exports": "after %s exports from one context" % o.args["n"], "failed": "after %s failed receiver setups" % o.args["n"]}[o.args["kind"]],
                        o.ret.get("first"), b), case_text=ss.case_text(o.id), workload="placement")
                else:
                    env.seen(("budget", ss.ids[0], o.args["kind"], b))
                    env.count("budget_probe:%s" % o.args["kind"], int(o.args["n"]))


def key_mill(env):
    """Process lifetime as a hidden input: 2^32 (minus a window) private-key objects are constructed and dropped on one
    thread, then 80 remembered keys are parsed afresh and their public keys recomputed - a 32-bit object id or
    generation counter that wraps makes one of them inherit another key's cached result.  X25519 (10 ns per object)."""
    g = gen.G(env.rnd)
    cw = cl.CaseW()
    s = cw.session(0x0020, 1, 1, sid="mill")
    # the object constructed right after the fillers is the (2^32 + c)-th after the key whose public key the library
    # computed last, for c = -3 .. 3 (an id per object, give or take a few ids spent elsewhere)
    for c in range(-3, 4):
        s.call("key_mill", ikm=g.rbytes(16), n=(1 << 32) - 1 + c, window=8)
    s.call("key_mill", ikm=g.rbytes(16), n=(1 << 32) - 40, window=80)
    s.call("key_mill", ikm=g.rbytes(16), n=1 << 16, window=80)
    for b in ("checked", "checked-std"):
        res = env.drive("mill", cw.text(), build=b, timeout=3600)
        if res.timed_out:
            env.note("key mill: watchdog (inconclusive for this sub-run only)")
            continue
        for ss in res.sessions:
            for o in ss.ops:
                if o.op != "key_mill":
                    continue
                env.count("evaluations", 1)
                if o.ret is None or "ok" not in o.ret:
                    env.violation("C18:key_mill:%s" % o.outcome(), "constructing %s private keys: %s" % (o.args["n"], o.outcome()), case_text=ss.case_text(o.id), workload="placement")
                elif o.ret.get("mism") != "0":
                    env.violation("C18:depends_on_objects_created_before", "after %s private-key objects had been constructed in the process, %s freshly parsed key(s) gave a public key different from the one the same bytes gave before (%s build)" % (
                        o.ret.get("made"), o.ret.get("mism"), b), case_text=ss.case_text(o.id), workload="placement")
                else:
                    env.seen(("key_mill", b, o.args["n"]))
        env.extra_cov["private_key_objects_constructed_in_one_process:%s" % b] = sum(int(o.ret.get("made", 0)) for ss in res.sessions for o in ss.ops if o.op == "key_mill" and o.ret)


def _short(d):
    return {k: (v if len(str(v)) < 40 else str(v)[:40] + "…") for k, v in d.items()}


def reentrant_rng_probe(env):
    """The caller's RNG is caller code: while the library waits for its bytes it may itself use the library on the same
    thread (an RNG layered on HPKE key generation, a logging RNG that seals its audit record).  Every RNG-taking entry
    point is called twice with identical arguments, once with a plain scripted RNG and once with one that performs a key
    generation and a full round trip before every draw; the results must be identical and the nested uses must work."""
    g = gen.G(env.rnd)
    cw = cl.CaseW()
    for i, kem in enumerate(gen.KEMS):
        for j, aead in enumerate((gen.SEAL_AEADS[i % 3], 0xFFFF)):
            s = cw.session(kem, gen.KDFS[(i + j) % 3], aead, sid="re%d_%d" % (i, j))
            n = gen.nsk(kem)
            gen.add_keys(s, g, kem, "kR")
            gen.add_keys(s, g, kem, "kS")
            rng = g.raw(n).hex() + "aa" * 8
            for re_ in (0, 1, 0):
                s.call("gen_keypair", rng=rng, reenter=re_, pair="gen")
                s.call("encap", pkr="$kR.pk", rng=rng, reenter=re_, pair="encap")
                s.call("encap", pkr="$kR.pk", sks="$kS.sk", pks="$kS.pk", rng=rng, reenter=re_, pair="encap-auth")
                for mode in (0, 2):
                    extra = dict(sks="$kS.sk", pks="$kS.pk") if mode == 2 else {}
                    s.call("setup_s", mode=mode, pkr="$kR.pk", info="6162", rng=rng, reenter=re_, out="C%d%d" % (mode, re_), pair="setup%d" % mode, **extra)
                    if aead != 0xFFFF:
                        s.call("ss_seal", mode=mode, pkr="$kR.pk", info="6162", pt="00112233", aad="44", rng=rng, api="inplace", reenter=re_, pair="ss%d" % mode, **extra)
    text = cw.text()
    for b in ("checked", "checked-std", "checked-noalloc"):
        res = env.drive("reentrant", text, build=b)
        if res.timed_out:
            env.inconclusive.append("re-entrant RNG probe: watchdog")
            continue
        nested = 0
        for ss in res.sessions:
            ref = {}
            for o in (ss.all_ops or ss.ops):
                pair = o.args.get("pair")
                if pair is None:
                    continue
                env.count("evaluations", 1)
                if o.ret is None:
                    env.violation("C18:reentrant_rng:noreturn", "%s with a re-entrant RNG never returned (%s build)" % (o.op, b), case_text=ss.case_text(o.id), workload="placement")
                    break
                vis = {k: v for k, v in o.ret.items() if k not in ("nested", "afp", "bn", "es")}
                if o.args.get("reenter") == "1":
                    nres = (o.ret.get("nested") or "-").split(",")
                    nested += len([x for x in nres if x == "ok"])
                    if "ok" in o.ret and any(x != "ok" for x in nres):
                        env.violation("C18:reentrant_rng:nested_use_failed", "while %s waited for RNG bytes, the RNG's own use of the library on the same thread gave %s (%s build)" % (o.op, nres, b),
                                      case_text=ss.case_text(o.id), workload="placement")
                if pair not in ref:
                    ref[pair] = (o, vis)
                elif vis != ref[pair][1]:
                    env.violation("C18:reentrant_rng:%s" % o.op, "%s gives %s with a plain RNG and %s when the RNG uses the library while it is being asked for bytes (same bytes handed out, %s build)" % (
                        o.op, _short(ref[pair][1]), _short(vis), b), case_text=ss.case_text(o.id), workload="placement")
                else:
                    env.seen(("reentrant", ss.ids, pair, b))
        env.count("nested_library_uses_inside_rng:%s" % b, nested)
        if nested == 0 and not env.violations:
            env.inconclusive.append("re-entrant RNG probe: no nested use succeeded on the %s build" % b)


def build_storm(env, scale):
    """many threads, each with its own recipient key of the same KEM, decapsulating at once"""
    g = gen.G(env.rnd)
    cw = cl.CaseW()
    for kem in gen.KEMS:
        s = cw.session(kem, 1, 1, sid="st%04x" % kem)
        reps = {0x0020: 40000, 0x0010: 6000, 0x0011: 1000, 0x0012: 500}[kem] * scale
        s.call("decap_storm", ikm=g.rbytes(16), threads=16, reps=reps)
        s.call("decap_storm", ikm=g.rbytes(16), threads=16, reps=max(1, reps // 2), auth=1)
    return cw


def build_history_probes(env, reps):
    """Calls whose result must be a function of their arguments alone, issued several times in a
    row and with near-colliding neighbours (same prefix / same length / same RNG bytes), so that a
    cache, a 'previous value' memo or a global counter has something to bite on."""
    g = gen.G(env.rnd)
    rnd = env.rnd
    cw = cl.CaseW()
    n = 0
    for kem in gen.KEMS:
        nsk = gen.nsk(kem)
        for r in range(reps):
            kdf, aead = rnd.choice(gen.KDFS), rnd.choice(gen.ALL_AEADS)
            s = cw.session(kem, kdf, aead, sid="hp%d" % n)
            n += 1
            gen.add_keys(s, g, kem, "kR")
            gen.add_keys(s, g, kem, "kS")
            rng = g.rbytes(nsk)
            ikm = g.rbytes(rnd.choice([nsk, 7, 100]))
            grp = [0]

            def rep(op, times=3, **a):
                grp[0] += 1
                for _ in range(times):
                    s.call(op, rep=grp[0], **a)

            rep("gen_keypair", rng=rng)
            rep("derive_keypair", ikm=ikm)
            rep("gen_keypair", rng=rng)  # again after other calls
            rep("encap", pkr="$kR.pk", rng=rng)
            rep("encap", pkr="$kR.pk", sks="$kS.sk", pks="$kS.pk", rng=rng)
            rep("sk_to_pk", sk="$kR.sk")
            # near-colliding info / psk / psk_id strings in consecutive setups: same 64/128-byte prefix
            L = rnd.choice([64, 65, 100, 128, 300])
            prefix = g.raw(L).hex()
            infos = [prefix, prefix + "00", prefix + "01", prefix + g.raw(8).hex(), prefix, prefix[:-2] + "ff", prefix + "00"]
            mode = rnd.choice(gen.MODES)
            pa = dict(psk=g.rbytes(40), pskid=g.rbytes(9)) if mode in (1, 3) else {}
            sa = dict(sks="$kS.sk", pks="$kS.pk", **pa) if mode in (2, 3) else dict(pa)
            ra = dict(pks="$kS.pk", **pa) if mode in (2, 3) else dict(pa)
            for i, info in enumerate(infos):
                # identical (info) pairs get the same group: results must be identical
                key = "i%s" % infos.index(info)
                s.call("setup_s", mode=mode, pkr="$kR.pk", info=info, rng=rng, out="P%d" % i, rep="s" + key, **sa)
                s.call("export", ctx="P%d" % i, exctx="aa", len=32, rep="e" + key)
                s.call("setup_r", mode=mode, skr="$kR.sk", enc="$P%d.enc" % i, info=info, out="Q%d" % i, rep="r" + key, **ra)
                s.call("export", ctx="Q%d" % i, exctx="aa", len=32, rep="e" + key)
            if mode in (1, 3):
                pid = g.raw(L).hex()
                for i, pskid in enumerate([pid, pid + "00", pid, pid[:-2] + "01", pid]):
                    a2 = dict(sa, pskid=pskid)
                    s.call("setup_s", mode=mode, pkr="$kR.pk", info="-", rng=rng, out="K%d" % i, rep="k%s" % [pid, pid + "00", pid[:-2] + "01"].index(pskid), **a2)
                    s.call("export", ctx="K%d" % i, exctx="-", len=32, rep="ke%s" % [pid, pid + "00", pid[:-2] + "01"].index(pskid))
            # the receiver's key objects parsed once and reused for setups that expect different senders
            gen.add_keys(s, g, kem, "kI")
            s.call("setup_s", mode=2, pkr="$kR.pk", info="-", rng=rng, out="AU", sks="$kS.sk", pks="$kS.pk")
            s.call("setup_r_reuse", mode=2, skr="$kR.sk", enc="$AU.enc", info="-", pks="$kS.pk", pks2="$kI.pk", pks3="$kS.pk", pks4="$kR.pk", reuse=1)
            for i, pk in enumerate(("$kS.pk", "$kI.pk", "$kS.pk", "$kR.pk")):
                s.call("setup_r", mode=2, skr="$kR.sk", enc="$AU.enc", info="-", pks=pk, out="FR%d" % i)
                s.call("export", ctx="FR%d" % i, exctx="7265757365", len=32, fresh=i)
            # exporter contexts sharing long prefixes, on one context
            for ex in (prefix, prefix + "00", prefix, prefix[:-2] + "ff", prefix):
                s.call("export", ctx="P0", exctx=ex, len=48, rep="x%s" % [prefix, prefix + "00", prefix[:-2] + "ff"].index(ex))
    return cw


def check_repeats(env, res, label):
    """within one execution: calls with identical arguments (same rep group) must agree"""
    bad = 0
    for s in res.sessions:
        # reused key objects vs freshly parsed ones
        reuse = [o for o in s.ops if o.op == "setup_r_reuse" and o.ok()]
        fresh = {o.args["fresh"]: o for o in s.ops if o.op == "export" and "fresh" in o.args}
        for o in reuse:
            for i in range(4):
                f = fresh.get(str(i))
                if f is None or "v%d" % i not in o.ret:
                    continue
                env.count("evaluations", 1)
                want = f.ret.get("out") if f.ok() else "err:" + (f.err() or "?")
                if o.ret["v%d" % i] != want:
                    env.violation("C18:reused_key_objects_differ", "setup_receiver #%d on key objects that were parsed once and reused gives %s, the same call on freshly parsed objects gives %s (%s)" % (
                        i, o.ret["v%d" % i][:40], str(want)[:40], label), case_text=s.case_text(o.id), workload="history")
                    bad += 1
                    break
        groups = {}
        for op in s.ops:
            if "rep" in op.args and op.ret is not None:
                key = (op.op, op.args["rep"])
                val = tuple(sorted((k, v) for k, v in op.ret.items() if k not in IGNORE))
                env.count("evaluations", 1)
                if key in groups and groups[key][0] != val:
                    first = groups[key][1]
                    a, b = dict(groups[key][0]), dict(val)
                    fields = sorted(f for f in set(a) | set(b) if a.get(f) != b.get(f))
                    env.violation("C18:history_dependent:%s" % op.op,
                                  "%s with identical arguments returned a different result than an earlier identical call in the same execution (%s; fields %s; first call %s, this call %s)" % (
                                      op.op, label, fields, first, op.id), case_text=s.case_text(op.id), workload="history")
                    bad += 1
                    break
                groups.setdefault(key, (val, op.id))
        if not bad:
            env.seen((s.sid, "repeats", label))
    return bad


def transcript(sess):
    out = []
    for op in sess.ops:
        ret = op.ret
        if ret is None:
            out.append((op.id, None))
        else:
            out.append((op.id, tuple(sorted((k, v) for k, v in ret.items() if k not in IGNORE))))
    return out


def sched_stats(path):
    """(distinct threads, number of adjacent ticket pairs that belong to different sessions, placement map)"""
    rows = []
    try:
        for line in open(path):
            t, opid, th = line.split()
            rows.append((int(t), opid, int(th)))
    except OSError:
        return 0, 0, {}
    rows.sort()
    threads = {r[2] for r in rows}
    switches = sum(1 for a, b in zip(rows, rows[1:]) if a[1].split(".")[0] != b[1].split(".")[0])
    placement = {r[1]: r[2] for r in rows}
    return len(threads), switches, placement


def compare(env, name, base, res, placements):
    bt = {s.sid: transcript(s) for s in base.sessions}
    n = 0
    for s in res.sessions:
        t = transcript(s)
        ref = bt.get(s.sid)
        if ref is None:
            continue
        n += 1
        env.count("evaluations", 1)
        if t != ref:
            # first differing operation
            k = next((i for i, (a, b) in enumerate(zip(t, ref)) if a != b), min(len(t), len(ref)))
            op = s.ops[min(k, len(s.ops) - 1)]
            a = dict(t[k][1]) if k < len(t) and t[k][1] else {}
            b = dict(ref[k][1]) if k < len(ref) and ref[k][1] else {}
            fields = sorted(f for f in set(a) | set(b) if a.get(f) != b.get(f))
            env.violation("C18:differs:%s:%s" % (name.split(":")[0], op.op),
                          "session %s gives a different result under placement '%s' than sequentially: operation %s, fields %s" % (s.sid, name, op.raw[:120], fields),
                          case_text=s.case_text(op.id), workload="placement")
        else:
            env.seen((s.sid, name))
    placements[name] = n
    return n


def check_par(env, res):
    """concurrent exports through a shared reference must all equal the sequential export"""
    for s in res.sessions:
        for i, op in enumerate(s.ops):
            if op.ret is None or not op.ok():
                continue
            if op.op == "export_par":
                env.count("evaluations", 1)
                if op.ret.get("mism", "0") != "0" or (op.args.get("vary") != "1" and op.ret.get("distinct") != "1"):
                    env.violation("C18:shared_export_diverges", "concurrent exports through a shared reference from %s threads: %s of %s calls returned something else than the same call made sequentially" % (
                        op.ret.get("threads"), op.ret.get("mism"), op.ret.get("calls")), case_text=s.case_text(op.id), workload="placement")
                env.count("shared_export_threads", int(op.ret.get("threads", 0)))
                env.count("shared_export_calls", int(op.ret.get("calls", 0)))
            elif op.op == "decap_storm":
                env.count("evaluations", 1)
                env.count("storm_decapsulations", int(op.ret.get("calls", 0)))
                if op.ret.get("mism") != "0":
                    env.violation("C18:concurrent_decap_diverges", "%s of %s decapsulations made concurrently by %s threads with distinct recipient keys differ from the same call made sequentially" % (
                        op.ret.get("mism"), op.ret.get("calls"), op.ret.get("threads")), case_text=s.case_text(op.id), workload="placement")
            elif op.op in ("setup_r_par", "setup_s_par"):
                env.count("evaluations", 1)
                env.count("shared_key_setups", int(op.ret.get("threads", 0)))
                if op.ret.get("distinct") != "1":
                    env.violation("C18:shared_key_diverges:%s" % op.op, "%s threads running %s concurrently through shared references to freshly deserialized keys produced %s distinct results (the sequential call afterwards gives %s)" % (
                        op.ret.get("threads"), "setup_receiver" if op.op == "setup_r_par" else "setup_sender", op.ret.get("distinct"), str(op.ret.get("value"))[:40]),
                        case_text=s.case_text(op.id), workload="placement")


def hang_analysis(env, text, res, build):
    """The sequential run hit the watchdog.  If the call that never returned DOES return when its session is run
    alone in a fresh process, the hang depends on what earlier sessions did - a violation of C18 (and only then;
    anything else stays inconclusive)."""
    hung = None
    for s in res.sessions:
        for o in (s.all_ops or s.ops):
            if o.ret is None:
                hung = (s, o)
    if hung is None:
        return False
    s, o = hung
    # the smallest history that still contains the call: only the calls that produce a value it refers to
    import re as _re
    ops = s.all_ops or s.ops
    need = set(_re.findall(r"\$([A-Za-z0-9_]+)\.", o.raw))
    if o.args.get("ctx"):
        need.add(o.args["ctx"])
    keep = []
    for prev in reversed(ops[: ops.index(o)]):
        if prev.args.get("out") in need:
            keep.append(prev)
            need |= set(_re.findall(r"\$([A-Za-z0-9_]+)\.", prev.raw))
    minimal = "\n".join([s.header] + [x.raw for x in reversed(keep)] + [o.raw]) + "\nE %s\n" % s.sid
    alone = env.drive("hang-isolated", minimal, build=build, timeout=300)
    if alone.timed_out:
        env.inconclusive.append("call %s never returns even as the only call of a fresh process (not history-dependent; reported as inconclusive here)" % o.raw[:80])
        return True
    ok = any(x.ret is not None for ss in alone.sessions for x in (ss.all_ops or ss.ops) if x.id == o.id)
    if ok:
        env.violation("C18:hangs_after_history:%s" % o.op,
                      "%s never returned (watchdog) when run after the earlier sessions, but returns at once when its session is run alone in a fresh process: its behaviour depends on earlier library calls (%s build)" % (o.raw[:100], build),
                      case_text=s.case_text(o.id), workload="placement")
        return True
    return False


def tsan_reports(text):
    return len(re.findall(r"WARNING: ThreadSanitizer", text))


def run(env):
    # Send + Sync first: if a public type lost it, the driver (which moves and shares contexts across
    # threads) cannot even be built, and that must be reported as what it is
    sendsync(env)
    if env.violations:
        return
    per = env.pick(1, 4)
    text = build(env, per).text()
    htext = build_history_probes(env, env.pick(6, 40)).text()
    text += htext
    base = env.drive("seq", text, timeout=env.pick(900, 3600))
    if base.timed_out and hang_analysis(env, text, base, "checked"):
        return
    env.require_complete(base, "seq")
    check_par(env, base)
    check_repeats(env, base, "sequential, alloc build")
    # the bare no_std configuration (no allocating API): sequential vs threaded vs migrating
    nbase = env.drive("seq-noalloc", text, build="checked-noalloc", timeout=env.pick(900, 3600))
    if nbase.timed_out and hang_analysis(env, text, nbase, "checked-noalloc"):
        return
    env.require_complete(nbase, "seq-noalloc")
    check_par(env, nbase)
    check_repeats(env, nbase, "sequential, no-alloc build")
    na_placements = {}
    for sc in ("threads:16", "migrate:16:%d" % (env.seed + 5), "interleave:%d:8" % (env.seed + 5)):
        r3 = env.drive("placed-noalloc", text, build="checked-noalloc", sched=sc)
        env.require_complete(r3, "noalloc " + sc)
        compare(env, "noalloc+" + sc, nbase, r3, na_placements)
        check_par(env, r3)
    env.extra_cov["noalloc_build_placements"] = na_placements
    thread_creation_probe(env)
    teardown_probe(env)
    reentrant_rng_probe(env)
    new_api_probe(env)
    budget_probe(env)
    stext = build_storm(env, env.pick(1, 6)).text()
    for b in ("checked", "checked-std", "checked-noalloc"):
        rs = env.drive("storm", stext, build=b)
        env.require_complete(rs, "storm/" + b)
        check_par(env, rs)
    # the same under the crate's `std` feature (std-only code paths), sequential + permuted + interleaved
    sbase = env.drive("seq-std", text, build="checked-std")
    env.require_complete(sbase, "seq-std")
    check_repeats(env, sbase, "sequential, std build")
    std_placements = {}
    compare(env, "std-build-vs-alloc-build", base, sbase, std_placements)
    for sc in ("perm:%d" % (env.seed + 3), "interleave:%d:8" % (env.seed + 3), "threads:4"):
        r2 = env.drive("placed-std", text, build="checked-std", sched=sc)
        env.require_complete(r2, "std " + sc)
        compare(env, "std+" + sc, sbase, r2, std_placements)
        check_repeats(env, r2, "std build, " + sc)
    env.extra_cov["std_build_placements"] = std_placements
    placements = {}
    traces = {}
    seeds = [env.seed * 7 + k for k in range(env.pick(1, 4))]
    scheds = []
    for sd in seeds:
        scheds += ["perm:%d" % sd, "interleave:%d:8" % sd, "interleave:%d:64" % (sd + 1), "migrate:4:%d" % sd, "migrate:16:%d" % (sd + 1)]
    # "stack:64": sequential, every session on a thread with a 64 KiB stack (the unchanged library needs < 32 KiB)
    scheds += ["threads:2", "threads:4", "threads:16", "stack:64"]
    orders = set()
    for sc in scheds:
        res = env.drive("placed", text, sched=sc)
        if sc.startswith("stack:") and res.rc not in (0, None) and "overflowed its stack" in (res.stderr or ""):
            last = [(ss, o) for ss in res.sessions for o in (ss.all_ops or ss.ops) if o.ret is None]
            ss, o = last[-1] if last else (res.sessions[-1], None)
            env.violation("C18:needs_large_stack:%s" % (o.op if o else "?"),
                          "on a thread with a %s KiB stack the process died with a stack overflow in %s (the same calls complete on the main thread, and on such a thread before the change: the unchanged library needs < 32 KiB): the outcome depends on the thread the call runs on" % (sc.split(":")[1], o.raw[:160] if o else "?"),
                          case_text=ss.case_text(o.id) if o else None, workload="placement")
            continue
        env.require_complete(res, sc)
        compare(env, sc, base, res, placements)
        check_par(env, res)
        check_repeats(env, res, sc)
        nthreads, switches, placement = sched_stats(res.sched_path)
        traces[sc] = {"threads_used": nthreads, "session_switches": switches, "ops": len(placement)}
        orders.add(tuple(sorted(placement.items())).__hash__())
        try:
            with open(res.sched_path) as fh:
                orders.add(hash(fh.read()))
        except OSError:
            pass
        if sc.startswith(("threads", "migrate")) and nthreads < 2 and not env.violations:
            env.inconclusive.append("placement %s ran on a single thread" % sc)
        if sc.startswith(("interleave", "migrate", "threads")) and switches < len(base.sessions) and not env.violations:
            env.inconclusive.append("placement %s never interleaved sessions (%d switches)" % (sc, switches))
    env.extra_cov["placements"] = placements
    env.extra_cov["schedule_traces"] = traces
    env.extra_cov["distinct_global_orders_observed"] = len(orders)
    env.samples = [{"placement": k, **v} for k, v in list(traces.items())[:6]]
    # ---- ThreadSanitizer over the threaded placements
    from props.c13 import slice_text
    ttext = slice_text(text, env.seed % 3, 3) if env.quick() else text
    tsan_total = 0
    for sc in (["threads:8", "migrate:8:%d" % env.seed] if env.quick() else ["threads:16", "threads:4", "migrate:8:%d" % env.seed, "migrate:16:%d" % (env.seed + 1)]):
        res = env.drive("tsan", ttext, build="tsan", sched=sc, extra_env={"TSAN_OPTIONS": "halt_on_error=0:exitcode=66:second_deadlock_stack=1"})
        if res.timed_out:
            env.inconclusive.append("tsan %s: watchdog" % sc)
            continue
        n = tsan_reports(res.stderr)
        tsan_total += n
        env.count("evaluations", sum(len(s.ops) for s in res.sessions))
        if n or res.rc == 66:
            # dedupe by the first in-repo / in-crate frame
            frames = re.findall(r"#\d+ (\S+) (\S+:\d+)", res.stderr)
            env.violation("C18:tsan_data_race", "ThreadSanitizer reported %d data race(s) under %s:\n%s" % (n, sc, res.stderr[:3000]), workload="placement")
        elif res.rc != 0:
            env.inconclusive.append("tsan run %s exited %s: %s" % (sc, res.rc, res.stderr[-300:]))
        else:
            # the instrumented run must also agree with the sequential transcript
            compare(env, "tsan+" + sc, base if not env.quick() else _subset(base, res), res, placements)
        traces["tsan+" + sc] = dict(zip(("threads_used", "session_switches"), sched_stats(res.sched_path)[:2]))
    env.extra_cov["tsan_reports"] = tsan_total
    if not env.quick():
        key_mill(env)
        miri_seeds(env)


def _subset(base, res):
    keep = {s.sid for s in res.sessions}
    r = fw.DriveResult()
    r.sessions = [s for s in base.sessions if s.sid in keep]
    return r


def sendsync(env):
    cdir = os.path.join(fw.VERIF, "probes", "sendsync")
    fw.prepare_crate(cdir)
    e = dict(fw.BASE_ENV)
    p = subprocess.run(["cargo", "run", "--offline", "--features", "x25519,p256,p384,p521,alloc", "--target-dir", os.path.join(fw.VERIF, "target", "probe")],
                       cwd=cdir, env=e, stdout=subprocess.PIPE, stderr=subprocess.STDOUT, text=True, timeout=1800)
    ok = p.returncode == 0 and "sendsync-probe-ok" in p.stdout
    env.extra_cov["send_sync_probe"] = {"compile_time": True, "ok": ok, "types": "AeadCtxS/AeadCtxR for 12 suites x 4 KEMs, keys, EncappedKey, AeadTag, OpModeS/R, PskBundle, HpkeError"}
    env.count("evaluations", 1)
    if ok:
        env.seen("send_sync_probe")
        return
    if re.search(r"error\[E0277\].*cannot be (sent|shared) between threads", p.stdout):
        first = re.search(r"error\[E0277\][^\n]*\n[^\n]*\n[^\n]*\n[^\n]*", p.stdout)
        env.violation("C18:not_send_sync", "a public type is no longer Send + Sync (compile-time probe):\n%s" % (first.group(0) if first else p.stdout[-600:]), workload="sendsync")
    else:
        env.inconclusive.append("send/sync probe failed to build for another reason: %s" % p.stdout[-400:])


def miri_seeds(env):
    """X25519-only migration/shared-export workload under Miri with several scheduler seeds."""
    g = gen.G(env.rnd)
    cw = cl.CaseW()
    for i in range(4):
        s = cw.session(0x0020, 1, [1, 3, 2, 0xFFFF][i], sid="y%d" % i)
        gen.add_pair(s, g, 0x0020, 0)
        if i < 3:
            s.call("seal", ctx="S", api="inplace", pt="0102", aad="-", out="m")
            s.call("open", ctx="R", api="inplace", ct="$m.ct", tag="$m.tag", aad="-")
        s.call("export_par", ctx="S", exctx="-", len=8, threads=3, reps=1)
    case = os.path.join(env.work, "miri.case")
    open(case, "w").write(cw.text())
    fw.prepare_crate(os.path.join(fw.VERIF, "harness"))
    e = dict(fw.BASE_ENV)
    e["RUSTFLAGS"] = "--cfg hpke_verif"
    results = {}
    for seed in range(2):
        ev = os.path.join(env.work, "miri.%d.ev" % seed)
        e["MIRIFLAGS"] = "-Zmiri-disable-isolation -Zmiri-seed=%d" % seed
        cmd = ["cargo", "+nightly", "miri", "run", "--offline", "--target-dir", os.path.join(fw.VERIF, "target", "miri"), "--", "run", case, ev, "--sched", "migrate:3:%d" % seed]
        try:
            p = subprocess.run(cmd, cwd=os.path.join(fw.VERIF, "harness"), env=e, stdout=subprocess.PIPE, stderr=subprocess.PIPE, timeout=3600)
        except subprocess.TimeoutExpired:
            results[seed] = "watchdog"
            continue
        err = p.stderr.decode("utf-8", "replace")
        if "Undefined Behavior" in err or "Data race detected" in err:
            env.violation("C18:miri", "Miri reported a data race / undefined behaviour (seed %d):\n%s" % (seed, err[-2500:]), workload="placement")
            results[seed] = "report"
        elif p.returncode != 0:
            results[seed] = "failed to run (rc %s)" % p.returncode
        else:
            sessions, _ = cl.parse_events(ev)
            results[seed] = "ok, %d ops" % sum(len(s.ops) for s in sessions)
            env.count("evaluations", sum(len(s.ops) for s in sessions))
    env.extra_cov["miri_many_seeds"] = results


MONITORS = {}


def replay(env, path):
    """re-run the sequential execution and every cheap placement of the one session in the file"""
    lines = open(path).read().splitlines()
    text = "\n".join(l for l in lines if not l.startswith("#")) + "\n"
    base = env.drive("replay-seq", text)
    placements = {}
    for sc in ("perm:1", "interleave:1:8", "threads:4", "migrate:4:1"):
        res = env.drive("replay-placed", text, sched=sc)
        compare(env, sc, base, res, placements)
    env.count("evaluations", 1)
    env.seen("replay")
    env.seen("replay2")
