"""C06 - integrity: any modification of ciphertext, tag or aad is rejected with OpenError by every
opening interface (streaming allocating, streaming in-place detached, both single-shot forms).
Pure self-consistency over the real code: the monitor compares the delivered bytes with the bytes
the sender produced and demands OpenError whenever they differ in any way."""
from lib import caselang as cl
from lib import framework as fw
from lib import gen

RULE = ("one case = one modified (ciphertext, tag, aad) triple presented to one opening interface while the "
        "receiver is positioned at the attacked message; distinct = distinct (aead, interface, variant kind, "
        "pt-length, position-in-message class) combinations; small messages get every single-bit flip")
ASSUMPTIONS = ["the receiver is positioned at the attacked message by honest in-order opens; if such a control open fails the session is inconclusive for C06 (C01/C05 report it)",
               "accidental AEAD forgeries (2^-128) are ignored"]


def variants(rnd, ptlen, aadlen, exhaustive, others, frame_fields=()):
    """Yields (kind, ct_t, tag_t, aad_t, full_t) transform suffixes; '' = unchanged"""
    nbits_ct = 8 * ptlen
    bits = range(nbits_ct) if exhaustive else sorted(set(rnd.randrange(nbits_ct) for _ in range(min(nbits_ct, 24))))
    for b in bits:
        yield ("flip_ct", "^flip:%d" % b, "", "", "^flip:%d" % b)
    tb = range(128) if exhaustive else sorted(set(rnd.randrange(128) for _ in range(16)))
    for b in tb:
        yield ("flip_tag", "", "^flip:%d" % b, "", "^flip:%d" % (nbits_ct + b))
    ab = range(8 * aadlen) if (exhaustive and aadlen <= 64) else sorted(set(rnd.randrange(8 * aadlen) for _ in range(min(8 * aadlen, 16))))
    for b in ab:
        yield ("flip_aad", "", "", "^flip:%d" % b, "")
    # truncations of the whole thing (allocating view) and of the body (in-place view)
    tl = range(ptlen + 16) if exhaustive else sorted(set([0, 1, 15, 16] + [rnd.randrange(ptlen + 16) for _ in range(6)]))
    for k in tl:
        yield ("trunc", "^trunc:%d" % min(k, max(ptlen - 1, 0)) if ptlen else None, "", "", "^trunc:%d" % k)
    for ext in ("00", "00" * 16, "ff" * 17, "%02x" % rnd.randrange(256)):
        yield ("extend", "^app:" + ext, "", "", "^app:" + ext)
        yield ("extend_aad", "", "", "^app:" + ext, "")
        yield ("prepend", "^pre:" + ext, "", "", "^pre:" + ext)
    # a tag with bytes appended or removed (only meaningful for the detached interfaces)
    for ext in ("00", "%02x" % rnd.randrange(256), "00" * 16):
        yield ("extend_tag", "", "^app:" + ext, "", None)
    for k in sorted(set([0, 1, 8, 15] + [rnd.randrange(16)])):
        yield ("trunc_tag", "", "^trunc:%d" % k, "", None)
    if aadlen > 65535:
        # associated data longer than a 16-bit length: everything past byte 65535 is authenticated too
        for b in (8 * 65535, 8 * 65535 + 7, 8 * 65536, 8 * aadlen - 1):
            if b < 8 * aadlen:
                yield ("flip_aad_far", "", "", "^flip:%d" % b, "")
        for k in (65535, 65536, aadlen - 1):
            if k < aadlen:
                yield ("trunc_aad_far", "", "", "^trunc:%d" % k, "")
    if aadlen:
        yield ("trunc_aad", "", "", "^trunc:%d" % (aadlen - 1), "")
        yield ("empty_aad", "", "", "^trunc:0", "")
    yield ("skip_first", "^skip:1" if ptlen else None, "", "", "^skip:1")
    # the same bytes in another framing: tag first, halves swapped, reversed; other protocol fields glued on
    if ptlen:
        yield ("tag_first", None, "", "", "^rotr:16")
    yield ("rotated", None, "", "", "^rotl:%d" % (1 + rnd.randrange(max(1, ptlen + 15))))
    if ptlen > 1:
        yield ("reversed", "^rev", "", "", "^rev")
    for field in frame_fields:
        yield ("prefixed_with_" + field.split(".")[-1], "^prereg:" + field, "", "", "^prereg:" + field)
        yield ("suffixed_with_" + field.split(".")[-1], "^catreg:" + field, "", "", "^catreg:" + field)
        yield ("tag_then_" + field.split(".")[-1], "", "^catreg:" + field, "", None)
    for o, same_aad, same_ct in others:
        yield ("subst_tag", "", "=$%s.tag" % o, "", None)
        if not same_aad:
            yield ("subst_aad", "", "", "=" + o, "")
        if not same_ct:
            yield ("subst_ct", "=$%s.ct" % o, "", "", None)


def emit(s, rnd, iface, name, aads, kind, ct_t, tag_t, aad_t, full_t, ssargs=None):
    def tr(base, t):
        if not t:
            return base
        if t.startswith("="):
            v = t[1:]
            return v if v.startswith("$") else aads[v]
        return base + t

    aad = tr(aads[name], aad_t)
    if iface in ("open_alloc", "ss_alloc"):
        if full_t is None:
            return
        ct = "$%s.full%s" % (name, full_t)
        if iface == "open_alloc":
            s.call("open", ctx="R", api="alloc", ct=ct, aad=aad, of=name, variant=kind)
        else:
            s.call("ss_open", api="alloc", ct=ct, aad=aad, of=name, variant=kind, **ssargs)
    else:
        if ct_t is None:
            return
        ct = tr("$%s.ct" % name, ct_t)
        tag = tr("$%s.tag" % name, tag_t)
        if iface == "open_inplace":
            s.call("open", ctx="R", api="inplace", ct=ct, tag=tag, aad=aad, of=name, variant=kind)
        else:
            s.call("ss_open", api="inplace", ct=ct, tag=tag, aad=aad, of=name, variant=kind, **ssargs)


def build(env, nsess, exhaustive_upto, ss_share):
    g = gen.G(env.rnd)
    rnd = env.rnd
    cw = cl.CaseW()
    ptlens = [0, 1, 8, 15, 16, 17, 31, 32, 33, 64]
    for i in range(nsess):
        aead = gen.SEAL_AEADS[i % 3]
        kem = gen.KEMS[(i // 3) % 4] if i % 2 else 0x0020
        kdf = gen.KDFS[(i // 5) % 3]
        s = cw.session(kem, kdf, aead, sid="t%d" % i)
        mode = rnd.choice(gen.MODES)
        m = gen.add_pair(s, g, kem, mode, info=g.rbytes(rnd.choice([0, 5, 40])))
        nm = rnd.choice([2, 3, 4])
        if i % 7 == 3:
            # the last sequence numbers: messages sealed at 2^64-nm .. 2^64-1
            s.call("set_seq", ctx="S", seq=(1 << 64) - nm)
            s.call("set_seq", ctx="R", seq=(1 << 64) - nm)
        aads = {}
        lens = {}
        names = []
        for j in range(nm):
            name = "m%d" % j
            lens[name] = rnd.choice(ptlens) if rnd.random() < 0.8 else rnd.choice([100, 257, 1000, 4097])
            al = rnd.choice([0, 1, 7, 16, 33])
            if i % 11 == 5 and j == 0:
                al = rnd.choice([65536, 65537, 70001])
            aads[name] = g.rbytes(al)
            lens[name + "a"] = al
            s.call("seal", ctx="S", api=rnd.choice(["alloc", "inplace"]), pt=g.rbytes(lens[name]), aad=aads[name], out=name)
            names.append(name)
        for j, name in enumerate(names):
            others = [(o, aads[o] == aads[name], lens[o] == 0 and lens[name] == 0) for o in names if o != name][:2]
            ex = lens[name] <= exhaustive_upto
            for v in variants(rnd, lens[name], lens[name + "a"], ex, others, frame_fields=("S.enc", "kR.pk", name + ".tag")):
                for iface in ("open_alloc", "open_inplace"):
                    if not ex and rnd.random() < 0.5:
                        continue
                    emit(s, rnd, iface, name, aads, *v)
            # control: the untouched message must open, which also moves R to the next message
            s.call("open", ctx="R", api="alloc", ct="$%s.full" % name, aad=aads[name], of=name, variant="control")
        # single-shot interfaces attack message 0 of a fresh single-shot seal
        if rnd.random() < ss_share:
            pl = rnd.choice([0, 1, 16, 33])
            al = rnd.choice([0, 9])
            aads["ss"] = g.rbytes(al)
            info = g.rbytes(rnd.choice([0, 12]))
            sargs = dict(m["sargs"])
            rargs = dict(m["rargs"])
            s.call("ss_seal", mode=mode, pkr="$kR.pk", info=info, pt=g.rbytes(pl), aad=aads["ss"], rng=g.rbytes(gen.nsk(kem)), api="alloc", out="ss", **sargs)
            ssargs = dict(mode=mode, skr="$kR.sk", enc="$ss.enc", info=info, **rargs)
            s.call("ss_open", api="alloc", ct="$ss.full", aad=aads["ss"], of="ss", variant="control", **ssargs)
            vs = list(variants(rnd, pl, al, pl <= 1, [("m0", aads["m0"] == aads["ss"], pl == 0 and lens["m0"] == 0)]))
            rnd.shuffle(vs)
            framing = list(variants(rnd, pl, al, False, [], frame_fields=("ss.enc", "kR.pk", "ss.tag")))[-12:]
            for v in vs[: (60 if kem == 0x0020 else 12)] + framing:
                for iface in ("ss_alloc", "ss_inplace"):
                    emit(s, rnd, iface, "ss", aads, *v, ssargs=ssargs)
            # wrong info is a modification of the context, not of the message: covered by C07
    return cw


def monitor(sess, extra):
    r = fw.MonResult()
    nt = sess.nt()
    sealed = {}
    control_failed = False
    consumed = set()
    for op in sess.ops:
        if op.ret is None:
            r.violation("C06:noreturn:%s" % op.op, "%s never returned" % op.id, sess, op)
            break
        if op.op in ("setup_s", "setup_r") and not op.ok():
            r.inconclusive.append("honest setup failed in C06 workload (%s)" % op.outcome())
            return r
        if op.op in ("seal", "ss_seal"):
            if op.ok():
                ct = op.out("ct") if "ct" in op.ret else op.out("full")[: len(op.out("full")) - nt]
                tag = op.out("tag") if "tag" in op.ret else op.out("full")[len(op.out("full")) - nt:]
                sealed[op.args["out"]] = (ct, tag, op.b["aad"], op.b["pt"])
            continue
        if op.op not in ("open", "ss_open") or "of" not in op.args:
            continue
        tgt = sealed.get(op.args["of"])
        if tgt is None:
            continue
        kind = op.args.get("variant", "?")
        inplace = op.args["api"] == "inplace"
        iface = ("ss_" if op.op == "ss_open" else "") + ("open_in_place_detached" if inplace else "open")
        ct0, tag0, aad0, pt0 = tgt
        if inplace:
            if len(op.b["tag"]) != nt:
                r.counts["evaluations"] += 1
                if op.ok():
                    r.violation("C06:accepted:%s:%s" % (iface, kind), "%s succeeded with a %d-byte tag (variant %s) and returned plaintext" % (iface, len(op.b["tag"]), kind), sess, op)
                else:
                    r.counts["variant:%s" % kind] += 1
                    r.distinct.add((sess.ids[2], iface, kind, len(pt0)))
                continue
            same = op.b["ct"] == ct0 and op.b["tag"] == tag0 and op.b["aad"] == aad0
        else:
            same = op.b["ct"] == ct0 + tag0 and op.b["aad"] == aad0
        if kind == "control" or same:
            if op.ok():
                consumed.add(op.args["of"])
            elif op.args["of"] in consumed and op.op == "open":
                pass  # an earlier byte-identical delivery was (rightly) accepted; this is now a replay
            else:
                control_failed = True
                r.inconclusive.append("control open of the unmodified message failed (%s) in %s - C06 cannot judge this session" % (op.outcome(), sess.sid))
                break
            continue
        if control_failed:
            break
        if op.ret.get("ovf") == "1" and op.err() == "MessageLimitReached":
            # the receiver has opened its 2^64-th message: refusing everything is what C05 demands of it
            r.counts["deliveries_to_exhausted_receiver"] += 1
            continue
        r.counts["evaluations"] += 1
        if op.ok():
            r.violation("C06:accepted:%s:%s" % (iface, kind),
                        "%s accepted a modified message (variant %s) and returned %d bytes of plaintext" % (iface, kind, len(op.out("pt") or b"")), sess, op)
            continue
        if op.err() != "OpenError":
            r.violation("C06:wrong_error:%s:%s" % (iface, op.outcome()), "%s rejected a modified message with %s instead of OpenError" % (iface, op.outcome()), sess, op)
            continue
        if inplace and len(pt0) >= 8 and op.out("buf") == pt0:
            r.violation("C06:plaintext_released:%s" % iface, "%s failed with OpenError but left the plaintext in the caller's buffer" % iface, sess, op)
            continue
        r.distinct.add((sess.ids[2], iface, kind, len(pt0)))
        r.counts["iface:%s" % iface] += 1
        r.counts["variant:%s" % kind] += 1
    opens = [o for o in sess.ops if o.op in ("open", "ss_open") and o.args.get("variant") not in (None, "control")]
    if opens and not r.samples:
        o = opens[len(opens) // 2]
        r.samples.append({"session": sess.header, "variants_in_session": len(opens), "example": o.raw[:220], "result": o.outcome()})
    return r


def build_longrun(env, nfail):
    """tens of thousands of modified messages against one receiver context, then the genuine one"""
    g = gen.G(env.rnd)
    cw = cl.CaseW()
    aead = gen.SEAL_AEADS[env.seed % 3]
    s = cw.session(0x0020, 1, aead, sid="long")
    gen.add_pair(s, g, 0x0020, 0)
    aads = {"m0": "a0a1"}
    s.call("seal", ctx="S", api="alloc", pt=g.rbytes(24), aad="a0a1", out="m0")
    for k in range(nfail):
        bit = k % (8 * 40)
        if k % 3 == 0:
            emit(s, env.rnd, "open_alloc", "m0", aads, "flip_any", "", "", "", "^flip:%d" % bit)
        elif k % 3 == 1:
            emit(s, env.rnd, "open_inplace", "m0", aads, "flip_tag", "", "^flip:%d" % (k % 128), "", None)
        else:
            emit(s, env.rnd, "open_alloc", "m0", aads, "flip_aad", "", "", "^flip:%d" % (k % 16), "")
    s.call("open", ctx="R", api="alloc", ct="$m0.full", aad="a0a1", of="m0", variant="control")
    return cw


def build_directed(env, per_aead):
    """Directed rare-event inputs: an empty-plaintext message whose genuine tag ends in one or more
    zero bytes (probability 2^-8 per message).  The context is built from raw key material, so the
    generator can search for a suitable aad with the reference AEAD; the reference is used to *find*
    the input, not to judge the result."""
    from ref import aead as refaead
    g = gen.G(env.rnd)
    rnd = env.rnd
    cw = cl.CaseW()
    found = 0
    for aead in gen.SEAL_AEADS:
        nk = refaead.params(aead)[0]
        for j in range(per_aead):
            key, bn = g.raw(nk), g.raw(12)
            ptlen = rnd.choice([0, 0, 1, 16])
            pt = g.raw(ptlen)
            hit = None
            for t in range(4000):
                aad = t.to_bytes(2, "big") + g.raw(2)
                full = refaead.seal(aead, key, bn, aad, pt)
                if full[-1] == 0 or full[ptlen] == 0:
                    hit = (aad, full)
                    break
            if hit is None:
                continue
            found += 1
            aad, full = hit
            kdf = gen.KDFS[j % 3]
            s = cw.session(gen.KEMS[j % 4], kdf, aead, sid="z%d_%d" % (aead, j))
            es = g.raw({1: 32, 2: 48, 3: 64}[kdf])
            s.call("raw_s", key=key, bn=bn, es=es, out="S")
            s.call("raw_r", key=key, bn=bn, es=es, out="R")
            s.call("seal", ctx="S", api="alloc", pt=pt, aad=aad, out="m0")
            aads = {"m0": cl.hexs(aad)}
            nz = len(full) - len(full.rstrip(b"\x00"))
            for k in range(1, 17):
                # remove k trailing bytes / k leading tag bytes / replace them by zeros
                emit(s, rnd, "open_alloc", "m0", aads, "trunc_trailing_zero_tag" if k <= nz else "trunc", "", "", "", "^trunc:%d" % (len(full) - k))
                emit(s, rnd, "open_inplace", "m0", aads, "trunc_tag", "", "^trunc:%d" % (16 - k), "", None)
            emit(s, rnd, "open_alloc", "m0", aads, "skip_first", None, "", "", "^skip:1")
            s.call("open", ctx="R", api="alloc", ct="$m0.full", aad=aads["m0"], of="m0", variant="control")
    return cw, found


MONITORS = {"tamper": monitor, "directed": monitor, "longrun": monitor}


def run(env):
    nsess, upto, ss = env.pick((60, 33, 0.5), (400, 64, 0.6))
    cw = build(env, nsess, upto, ss)
    res = env.drive("tamper", cw.text())
    env.require_complete(res, "tamper")
    mr = env.pmap(monitor, res.sessions, workload="tamper")
    env.extra_cov["sessions"] = len(res.sessions)
    # what a user ships, and what a fuzzing harness links (cfg(fuzzing) on every crate of the graph)
    small = build(env, env.pick(10, 60), 17, ss).text()
    for b in ("fast", "cfg-fuzzing"):
        rb = env.drive("tamper", small, build=b)
        env.require_complete(rb, "tamper/" + b)
        env.pmap(monitor, rb.sessions, workload="tamper")
    cw2, found = build_directed(env, env.pick(12, 120))
    res2 = env.drive("directed", cw2.text())
    env.require_complete(res2, "directed")
    env.pmap(monitor, res2.sessions, workload="directed")
    env.extra_cov["directed_zero_tag_messages"] = found
    res3 = env.drive("longrun", build_longrun(env, env.pick(66000, 140000)).text())
    env.require_complete(res3, "longrun")
    env.pmap(monitor, res3.sessions, workload="longrun")
    need = ["iface:open", "iface:open_in_place_detached", "iface:ss_open", "iface:ss_open_in_place_detached"]
    missing = [k for k in need if mr.counts[k] < 20]
    if missing and not env.violations:
        raise fw.Inconclusive("interfaces not exercised enough: %s" % missing)


def replay(env, path):
    import props.c06 as me
    fw.generic_replay(env, me, path)
