"""C05 - the receiver accepts exactly the next in-sequence message; failures change nothing.

An adversarial scheduler delivers next / replayed / future / tampered / truncated / extended /
garbage ciphertexts through both opening APIs.  The monitor steps an abstract receiver (position +
latch) over the recorded history and decides each delivery from the recorded bytes alone: it is
acceptable iff it equals, byte for byte, the message the sender sealed at the receiver's position,
with that message's aad."""
from lib import caselang as cl
from lib import framework as fw
from lib import gen

RULE = ("one case = one delivery to a receiver context, judged against the abstract model; distinct = distinct "
        "(aead, delivery kind, api, model verdict, position class) combinations observed; histories are counted too")
ASSUMPTIONS = ["a delivery that is not byte-identical to the sealed message at the receiver's position must be rejected (AEAD forgery probability 2^-128 is ignored)",
               "sequence positions near 2^64 are reached with the cfg(hpke_verif) set_seq hook on both sides"]
M64 = (1 << 64) - 1
KINDS = ["next", "next", "next", "alias", "replay", "future", "flip_ct", "flip_tag", "flip_aad", "wrong_aad", "trunc_short",
         "trunc", "extend", "empty", "garbage", "mix_tag", "skip_first"]


def build(env, nhist, maxsteps, starts):
    g = gen.G(env.rnd)
    cw = cl.CaseW()
    rnd = env.rnd
    for h in range(nhist):
        aead = gen.SEAL_AEADS[h % 3]
        kem = gen.KEMS[(h // 3) % 4]
        kdf = gen.KDFS[(h // 12) % 3]
        s = cw.session(kem, kdf, aead, sid="h%d" % h)
        gen.add_pair(s, g, kem, rnd.choice(gen.MODES))
        start = starts[h % len(starts)]
        if start == "rand":
            start = rnd.randrange(1, M64 - 300)
        if start:
            s.call("set_seq", ctx="S", seq=start)
            s.call("set_seq", ctx="R", seq=start)
        sealed = []  # names
        aads = {}
        lens = {}
        nsteps = rnd.randrange(20, maxsteps + 1)
        ahead = rnd.choice([1, 2, 5, 12])
        nopened = 0  # generator's guess of receiver progress (only steers the workload)

        def seal_more(k):
            for _ in range(k):
                if start + len(sealed) > M64:
                    return
                name = "m%d" % len(sealed)
                aad = g.rbytes(rnd.choice([0, 1, 7, 16, 33]))
                aads[name] = aad
                lens[name] = rnd.choice([0, 1, 15, 16, 17, 31, 32, 33, 80])
                s.call("seal", ctx="S", api=rnd.choice(["alloc", "inplace"]), pt=g.rbytes(lens[name]), aad=aad, out=name)
                sealed.append(name)

        seal_more(ahead)
        for step in range(nsteps):
            if nopened + ahead > len(sealed):
                seal_more(nopened + ahead - len(sealed))
            if not sealed:
                break
            kind = rnd.choice(KINDS)
            api = rnd.choice(["alloc", "inplace"])
            cur = min(nopened, len(sealed) - 1)
            m = sealed[cur]
            ct, tag, aad = "$%s.ct" % m, "$%s.tag" % m, aads[m]
            full = "$%s.full" % m
            if kind == "next":
                if nopened < len(sealed):
                    nopened += 1
            elif kind == "alias":
                # a message sealed at position p delivered to a receiver moved to p + 2^(8j): a counter that is
                # only partly mixed into the nonce would accept it.  The receiver is moved back afterwards.
                if start >= (1 << 56) or start + len(sealed) + 2 >= (1 << 56):
                    continue
                i = rnd.randrange(0, len(sealed))
                pos = start + i + (1 << (8 * rnd.randrange(1, 8))) * rnd.choice([1, 1, 3])
                if pos >= M64:
                    continue
                a = sealed[i]
                s.call("set_seq", ctx="R", seq=pos)
                if rnd.random() < 0.5:
                    s.call("open", ctx="R", api="alloc", ct="$%s.full" % a, aad=aads[a], kind="alias")
                else:
                    s.call("open", ctx="R", api="inplace", ct="$%s.ct" % a, tag="$%s.tag" % a, aad=aads[a], kind="alias")
                s.call("set_seq", ctx="R", seq=start + nopened)
                continue
            elif kind == "replay":
                if cur == 0:
                    continue
                j = sealed[rnd.randrange(0, cur)]
                ct, tag, full, aad = "$%s.ct" % j, "$%s.tag" % j, "$%s.full" % j, aads[j]
            elif kind == "future":
                if cur + 1 >= len(sealed):
                    continue
                j = sealed[rnd.randrange(cur + 1, len(sealed))]
                ct, tag, full, aad = "$%s.ct" % j, "$%s.tag" % j, "$%s.full" % j, aads[j]
            elif kind == "flip_ct":
                pl = lens[m]
                if pl == 0:
                    continue
                bit = rnd.randrange(0, 8 * pl)
                ct = ct + "^flip:%d" % bit
                full = full + "^flip:%d" % bit
            elif kind == "flip_tag":
                bit = rnd.randrange(0, 128)
                tag = tag + "^flip:%d" % bit
                full = full + "^flip:%d" % (8 * lens[m] + bit)
            elif kind == "flip_aad":
                aad = (aad if aad != "-" else "00") + "^flip:%d" % rnd.randrange(0, 8)
            elif kind == "wrong_aad":
                aad = aads[sealed[rnd.randrange(0, len(sealed))]] + "^app:01"
            elif kind == "trunc_short":
                k = rnd.randrange(0, 16)
                full = full + "^trunc:%d" % k
                ct = ct + "^trunc:%d" % rnd.randrange(0, 4)
                api = "alloc" if rnd.random() < 0.8 else api
            elif kind == "trunc":
                full = full + "^trunc:%d" % rnd.randrange(16, 40)
                ct = ct + "^trunc:%d" % rnd.randrange(0, 20)
            elif kind == "extend":
                ext = rnd.choice(["00", "00" * 16, "ff" * 17])
                full = full + "^app:" + ext
                ct = ct + "^app:" + ext
            elif kind == "empty":
                full = "-"
                ct = "-"
            elif kind == "garbage":
                n = rnd.choice([1, 15, 16, 17, 32, 48, 100])
                full = g.rbytes(n)
                ct = g.rbytes(max(0, n - 16))
                tag = g.raw(16).hex()
            elif kind == "mix_tag":
                j = sealed[rnd.randrange(0, len(sealed))]
                tag = "$%s.tag" % j
                full = "$%s.ct" % m  # body without any tag
                api = "inplace" if rnd.random() < 0.7 else "alloc"
            elif kind == "skip_first":
                full = full + "^skip:1"
                ct = ct + "^skip:1"
            if api == "alloc":
                s.call("open", ctx="R", api="alloc", ct=full, aad=aad, kind=kind)
            else:
                s.call("open", ctx="R", api="inplace", ct=ct, tag=tag, aad=aad, kind=kind)
            if rnd.random() < 0.05:
                s.call("export", ctx="R", exctx="aa", len=8)
        # drain: deliver everything that is left in order, so every history also ends with successes
        for _ in range(3):
            s.call("state", ctx="R")
    return cw


class SenderModel:
    def __init__(self):
        self.n = 0
        self.dead = False


def posclass(n):
    if n >= M64 - 2:
        return "last3"
    if n < 256:
        return "<256"
    if (n + 1) & 0xFF == 0 or n & 0xFF == 0:
        return "carry"
    return "mid"


def monitor(sess, extra):
    r = fw.MonResult()
    nt = sess.nt()
    snd = SenderModel()
    by_seq = {}  # absolute seq -> (full, aad, pt)
    n = 0
    dead = False
    steps = 0
    for op in sess.ops:
        if op.ret is None:
            r.violation("C05:noreturn:%s" % op.op, "%s never returned" % op.id, sess, op)
            break
        if op.op in ("setup_s", "setup_r", "raw_s", "raw_r") and not op.ok():
            r.inconclusive.append("honest setup failed in C05 workload: %s" % op.outcome())
            return r
        if op.op == "set_seq":
            if op.skipped():
                r.inconclusive.append("set_seq hook unavailable")
                return r
            if op.args["ctx"] == "S":
                snd.n, snd.dead = int(op.args["seq"]), False
            else:
                n, dead = int(op.args["seq"]), False
        elif op.op == "seal":
            if op.ok():
                full = op.out("full") if "full" in op.ret else op.out("ct") + op.out("tag")
                by_seq[snd.n] = (full, op.b["aad"], op.b["pt"])
                if snd.n >= M64:
                    snd.dead = True
                else:
                    snd.n += 1
            # sender-side misbehaviour is C04's business
        elif op.op == "open":
            steps += 1
            r.counts["evaluations"] += 1
            kind = op.args.get("kind", "?")
            inplace = op.args["api"] == "inplace"
            aad = op.b["aad"]
            if inplace:
                tag = op.b["tag"]
                if len(tag) != nt:
                    # the tag bytes never became a tag value; nothing reached the context
                    continue
                delivered = op.b["ct"] + tag
            else:
                delivered = op.b["ct"]
            nxt = by_seq.get(n)
            acceptable = (not dead) and nxt is not None and delivered == nxt[0] and aad == nxt[1]
            if dead:
                verdict = "limit"
                if op.err() != "MessageLimitReached":
                    short = (not inplace) and len(delivered) < nt
                    r.violation("C05:exhausted:%s:%s:%s" % ("inplace" if inplace else "alloc", "short" if short else "full", op.outcome()),
                                "receiver that has opened 2^64 messages answered a %d-byte delivery through the %s API with %s instead of MessageLimitReached"
                                % (len(delivered), "in-place" if inplace else "allocating", op.outcome()), sess, op)
                elif inplace and op.out("buf") != op.b["ct"]:
                    r.violation("C05:exhausted:buffer_touched", "MessageLimitReached but the caller's buffer was modified", sess, op)
            elif acceptable:
                verdict = "accept"
                if not op.ok():
                    r.violation("C05:rejected_next:%s" % op.outcome(),
                                "the delivery is exactly the message sealed at sequence number %d with its aad, and the receiver has opened %d messages, but it answered %s" % (n, n, op.outcome()), sess, op)
                else:
                    if op.out("pt") != nxt[2]:
                        r.violation("C05:wrong_plaintext", "accepted message %d opened to a different plaintext" % n, sess, op)
                    if n >= M64:
                        dead = True
                    else:
                        n += 1
            else:
                verdict = "reject"
                if op.ok():
                    which = [q for q, v in by_seq.items() if v[0] == delivered]
                    r.violation("C05:accepted_wrong:%s" % kind,
                                "receiver at position %d accepted a %s delivery (%s)" % (n, kind, "the message sealed at %s" % which if which else "not a message the sender sealed"), sess, op)
                elif op.err() != "OpenError":
                    r.violation("C05:reject_error:%s" % op.outcome(), "rejected delivery answered with %s instead of OpenError" % op.outcome(), sess, op)
            if "seq" in op.ret:
                st = (int(op.ret["seq"]), int(op.ret["ovf"]))
                want = (M64, 1) if dead else (n, 0)
                if st != want:
                    r.violation("C05:state:%s" % verdict, "(seq, overflowed) = %s after a %s/%s step, model says %s" % (st, kind, verdict, want), sess, op)
                    # resynchronise on the implementation so one defect is reported once per history
                    n, dead = (st[0], bool(st[1]))
            r.distinct.add((sess.ids[2], kind, op.args["api"], verdict, posclass(n)))
            r.counts["verdict:%s" % verdict] += 1
            r.counts["kind:%s" % kind] += 1
        elif op.op == "state":
            if "seq" in op.ret:
                st = (int(op.ret["seq"]), int(op.ret["ovf"]))
                want = (M64, 1) if dead else (n, 0)
                if st != want:
                    r.violation("C05:state:final", "(seq, overflowed) = %s at the end of the history, model says %s" % (st, want), sess, op)
    r.counts["histories"] += 1
    r.counts["history_steps:%s" % ("<50" if steps < 50 else "<200" if steps < 200 else ">=200")] += 1
    if dead:
        r.counts["histories_reaching_exhaustion"] += 1
    opens = [o for o in sess.ops if o.op == "open"]
    if opens and not r.samples:
        r.samples.append({"session": sess.header, "steps": steps, "history_head": [(o.args.get("kind"), o.args["api"], o.outcome()) for o in opens[:12]]})
    return r


def build_longrun(env, nfail, aeads):
    """One receiver context takes a very long run of rejected deliveries (a failure counter with a
    16-bit budget would overflow), then must still accept the genuine next messages."""
    g = gen.G(env.rnd)
    rnd = env.rnd
    cw = cl.CaseW()
    for aead in aeads:
        s = cw.session(0x0020, rnd.choice(gen.KDFS), aead, sid="L%d" % aead)
        gen.add_pair(s, g, 0x0020, 0)
        aads = {}
        for i in range(4):
            aads["m%d" % i] = g.rbytes(3)
            s.call("seal", ctx="S", api="alloc", pt=g.rbytes(20), aad=aads["m%d" % i], out="m%d" % i)
        s.call("open", ctx="R", api="alloc", ct="$m0.full", aad=aads["m0"], kind="next")
        for k in range(nfail):
            c = k % 5
            if c == 0:
                s.call("open", ctx="R", api="alloc", ct="$m1.full^flip:%d" % (k % 288), aad=aads["m1"], kind="flip_ct")
            elif c == 1:
                s.call("open", ctx="R", api="inplace", ct="$m1.ct", tag="$m1.tag^flip:%d" % (k % 128), aad=aads["m1"], kind="flip_tag")
            elif c == 2:
                s.call("open", ctx="R", api="alloc", ct="$m0.full", aad=aads["m0"], kind="replay")
            elif c == 3:
                s.call("open", ctx="R", api="alloc", ct="$m1.full", aad="ff", kind="wrong_aad")
            else:
                s.call("open", ctx="R", api="inplace", ct="$m2.ct", tag="$m2.tag", aad=aads["m2"], kind="future")
        for i in (1, 2, 3):
            s.call("open", ctx="R", api="alloc" if i & 1 else "inplace", ct="$m%d.full" % i if i & 1 else "$m%d.ct" % i,
                   tag=None if i & 1 else "$m%d.tag" % i, aad=aads["m%d" % i], kind="next")
        s.call("state", ctx="R")
    return cw


def build_special_tags(env, reps):
    """Genuine AES-GCM messages whose tag is all zero / all ones / a single set bit (probability 2^-128 each,
    constructed by linear algebra over the reference AEAD): they are the next in-sequence message and must open."""
    from lib import directed
    from ref import aead as refaead
    g = gen.G(env.rnd)
    cw = cl.CaseW()
    targets = [bytes(16), b"\xff" * 16, bytes(15) + b"\x01", b"\x80" + bytes(15), bytes(8) + b"\xff" * 8]
    n = 0
    for aead in (1, 2):
        for r in range(reps):
            key, bn, es = g.raw(refaead.params(aead)[0]), g.raw(12), g.raw(32)
            s = cw.session(0x0020, 1, aead, sid="T%d" % n)
            n += 1
            s.call("raw_s", key=key, bn=bn, es=es, out="S")
            s.call("raw_r", key=key, bn=bn, es=es, out="R")
            # ... and messages whose tag repeats the tag of an earlier message of the same context (the previous one,
            # the one before, the first): a receiver that remembers tags it has seen would refuse them
            tags = []
            for i, tgt in enumerate(targets + ["prev", "prev", "prev2", "first", "prev"]):
                aad = g.raw(env.rnd.choice([0, 5]))
                nonce_i = bytes(a ^ b for a, b in zip(bn, i.to_bytes(12, "big")))
                if isinstance(tgt, str):
                    tgt = {"prev": tags[-1], "prev2": tags[-2], "first": tags[0]}[tgt]
                pt = directed.gcm_plaintext_for_tag(aead, key, nonce_i, aad, tgt)
                if pt is None:
                    pt = g.raw(16)
                tags.append(refaead.seal(aead, key, nonce_i, aad, pt)[-16:])
                api = "inplace" if (i + r) & 1 else "alloc"
                s.call("seal", ctx="S", api=api, pt=pt, aad=aad, out="m%d" % i, special_tag=tgt.hex())
                if (i + r) & 2:
                    s.call("open", ctx="R", api="alloc", ct="$m%d.full" % i, aad=aad, kind="next_special_tag")
                else:
                    s.call("open", ctx="R", api="inplace", ct="$m%d.ct" % i, tag="$m%d.tag" % i, aad=aad, kind="next_special_tag")
    return cw


def reject_storm(env):
    """2^32 + 16 refused deliveries on ONE receiver (a 3-byte input is refused before any cryptography, ~10 ns each), then the
    genuine next message: a 32-bit tally of failures that latches or wraps shows here and nowhere below 2^32."""
    g = gen.G(env.rnd)
    cw = cl.CaseW()
    from ref import aead as refaead
    for i, aead in enumerate((1, 3)):
        s = cw.session(0x0020, 1, aead, sid="rs%d" % i)
        key, bn, es = g.raw(refaead.params(aead)[0]), g.raw(12), g.raw(32)
        s.call("raw_s", key=key, bn=bn, es=es, out="S")
        s.call("raw_r", key=key, bn=bn, es=es, out="R")
        s.call("seal", ctx="S", api="inplace", pt="0a0b0c", aad="-", out="m")
        s.call("open_many", ctx="R", n=(1 << 32) + 16, ct="010203", aad="-")
        s.call("open", ctx="R", api="inplace", ct="$m.ct", tag="$m.tag", aad="-", expect="ok")
    res = env.drive("reject_storm", cw.text(), build="fast", timeout=7200)
    env.require_complete(res, "reject_storm")
    for ss in res.sessions:
        for o in ss.ops:
            if o.op == "open_many":
                env.count("evaluations", 1)
                if o.ret is None or not o.ok():
                    env.violation("C05:reject_storm:%s" % o.outcome(), "2^32+16 refused deliveries: %s" % o.outcome(), case_text=ss.case_text(o.id), workload="mock_panics")
                elif o.ret.get("open_error") != str((1 << 32) + 16) or (o.ret.get("seq"), o.ret.get("ovf")) != ("0", "0"):
                    env.violation("C05:reject_storm:verdicts", "of 2^32+16 deliveries of a 3-byte input %s were answered OpenError, %s MessageLimitReached, %s otherwise, %s accepted; state afterwards (seq, overflowed) = (%s, %s)" % (
                        o.ret.get("open_error"), o.ret.get("limit"), o.ret.get("other"), o.ret.get("accepted"), o.ret.get("seq"), o.ret.get("ovf")), case_text=ss.case_text(o.id), workload="mock_panics")
                else:
                    env.extra_cov["longest_run_of_refused_deliveries_thorough"] = (1 << 32) + 16
            elif o.op == "open" and o.args.get("expect") == "ok":
                env.count("evaluations", 1)
                if not o.ok():
                    env.violation("C05:rejected_next:after_2^32_refusals:%s" % o.outcome(), "the genuine next message is refused (%s) after 2^32+16 refused deliveries" % o.outcome(), case_text=ss.case_text(o.id), workload="mock_panics")
                else:
                    env.seen(("reject_storm", ss.ids[2]))


def build_mock_panics(env, reps):
    """A user-supplied AEAD may panic (mock AEADs of harness/src/probe.rs).  A panic that unwinds out of open() and is
    caught by the application is a delivery that was not accepted: the receiver must still accept exactly the message of
    its current position afterwards, also at the last sequence number."""
    g = gen.G(env.rnd)
    rnd = env.rnd
    cw = cl.CaseW()
    for r in range(reps):
        aead = (0x7777, 0x7778, 0x7779, 0x777A, 0x777B, 0x777C)[r % 6]
        nn = {0x7777: 12, 0x7778: 24, 0x7779: 8, 0x777A: 13, 0x777B: 12, 0x777C: 12}[aead]
        kdf = [1, 3][r % 2]
        s = cw.session(gen.KEMS[r % 4], kdf, aead, sid="mp%d" % r)
        key, bn, es = g.raw(64 if aead == 0x777B else 32), g.raw(nn), g.raw({1: 32, 3: 64}[kdf])
        s.call("raw_s", key=key, bn=bn, es=es, out="S")
        s.call("raw_r", key=key, bn=bn, es=es, out="R")
        for p in (0, rnd.randrange(1, 1 << 40), M64 - 1):
            s.call("set_seq", ctx="S", seq=p)
            s.call("set_seq", ctx="R", seq=p)
            for j in range(2):
                if p + j > M64:
                    break
                s.call("seal", ctx="S", api="inplace", pt=g.rbytes(5), aad="aa", out="m", pos=p + j)
                npanic = rnd.choice([1, 1, 2])
                s.call("probe_ctl", panic_open=npanic)
                for _ in range(npanic):
                    api = rnd.choice(["alloc", "inplace"])
                    if api == "alloc":
                        s.call("open", ctx="R", api="alloc", ct="$m.full", aad="aa", expect="panic")
                    else:
                        s.call("open", ctx="R", api="inplace", ct="$m.ct", tag="$m.tag", aad="aa", expect="panic")
                s.call("probe_ctl", panic_open=0)
                s.call("state", ctx="R", expect_seq=p + j)
                s.call("open", ctx="R", api="inplace", ct="$m.ct", tag="$m.tag", aad="aa", expect="ok")
                s.call("open", ctx="R", api="inplace", ct="$m.ct", tag="$m.tag", aad="aa", expect="replay")
    return cw


def monitor_mock(sess, extra):
    r = fw.MonResult()
    for op in sess.ops:
        if op.ret is None:
            r.violation("C05:noreturn:%s" % op.op, "%s never returned" % op.id, sess, op)
            break
        exp = op.args.get("expect")
        if op.op == "state" and "expect_seq" in op.args and "seq" in op.ret:
            if (op.ret["seq"], op.ret.get("ovf")) != (op.args["expect_seq"], "0"):
                r.violation("C05:state_after_aead_panic", "after a panic inside the AEAD's decrypt (caught by the caller) the receiver is at (seq, overflowed) = (%s, %s); nothing was opened, it must still be at (%s, 0)" % (
                    op.ret["seq"], op.ret.get("ovf"), op.args["expect_seq"]), sess, op)
            continue
        if op.op != "open" or exp is None:
            continue
        r.counts["evaluations"] += 1
        if exp == "panic":
            if not op.panic():
                r.violation("C05:aead_panic_swallowed", "the AEAD panicked in decrypt but open returned %s" % op.outcome(), sess, op)
            else:
                r.counts["aead_panics_driven"] += 1
        elif exp == "ok":
            if not op.ok():
                r.violation("C05:rejected_next_after_aead_panic:%s" % op.outcome(), "the genuine message of the receiver's position is refused (%s) after an earlier delivery of it ended in a panic inside the AEAD" % op.outcome(), sess, op)
            else:
                r.distinct.add((sess.ids[2], "accepted_after_panic"))
        elif exp == "replay":
            last = sess.ops and op.args.get("ct")
            want = "MessageLimitReached" if False else None
            if op.ok():
                r.violation("C05:accepted:replay_after_panic", "a replay was accepted", sess, op)
    return r


CLONE_PROBE = """// generated by props/c05.py: the crate's receiver context implements Clone - a copy must be in exactly the state of
// the original (same position, same exhaustion latch) and from then on behave like it
use hpke::{aead::{AeadCtxR, AeadCtxS, AeadTag, AesGcm128}, kdf::HkdfSha256, kem::X25519HkdfSha256, Deserializable, Serializable};
type S = AeadCtxS<AesGcm128, HkdfSha256, X25519HkdfSha256>;
type R = AeadCtxR<AesGcm128, HkdfSha256, X25519HkdfSha256>;
fn attempt(r: &mut R, ct: &[u8], tag: &[u8]) -> String {
    let mut b = ct.to_vec();
    let t = AeadTag::<AesGcm128>::from_bytes(tag).unwrap();
    let res = r.open_in_place_detached(&mut b, b"aad", &t);
    format!("{:?}/{:?}", res.map(|_| b), r.verif_seq_state())
}
fn main() {
    let (key, bn, es) = ([7u8; 16], [9u8; 12], [1u8; 32]);
    for start in [0u64, 5, u64::MAX - 1] {
        let mut s = S::verif_from_raw(&key, &bn, &es).unwrap();
        let mut r = R::verif_from_raw(&key, &bn, &es).unwrap();
        s.verif_set_seq(start);
        r.verif_set_seq(start);
        let mut msgs = Vec::new();
        for i in 0..2u8 {
            let mut m = vec![i; 9];
            match s.seal_in_place_detached(&mut m, b"aad") {
                Ok(t) => msgs.push((m, t.to_bytes().to_vec())),
                Err(_) => break,
            }
        }
        for (k, (ct, tag)) in msgs.iter().enumerate() {
            // before message k: clone, then both see the same deliveries
            let mut c = r.clone();
            if c.verif_seq_state() != r.verif_seq_state() {
                println!("CLONE_DIFFERS state start={} k={} {:?} vs {:?}", start, k, c.verif_seq_state(), r.verif_seq_state());
            }
            for (ct2, tag2) in msgs.iter().rev() {
                let (a, b) = (attempt(&mut r.clone(), ct2, tag2), attempt(&mut c.clone(), ct2, tag2));
                if a != b {
                    println!("CLONE_DIFFERS verdict start={} k={} original={} clone={}", start, k, a, b);
                }
            }
            let (a, b) = (attempt(&mut r, ct, tag), attempt(&mut c, ct, tag));
            if a != b {
                println!("CLONE_DIFFERS verdict start={} k={} original={} clone={}", start, k, a, b);
            }
        }
        // after the last message (for start = 2^64-2 the context is now exhausted): replays on a fresh clone
        let mut c = r.clone();
        for (ct, tag) in msgs.iter() {
            let (a, b) = (attempt(&mut r, ct, tag), attempt(&mut c, ct, tag));
            if a != b {
                println!("CLONE_DIFFERS after start={} original={} clone={}", start, a, b);
            }
        }
    }
    println!("CLONE_PROBE_DONE");
}
"""


def clone_probe(env):
    """Only if the compiled crate's surface says the receiver context is Clone (it is not at the pinned commit)."""
    import os
    import subprocess
    from lib import apisurface
    d, why = apisurface.rustdoc_json()
    if d is None:
        env.note("receiver-context surface not inspected: %s" % why)
        return
    facts = apisurface.surface(d)
    cl_r = any(f.startswith("impl Clone for AeadCtxR") for f in facts)
    env.extra_cov["receiver_context_is_clone"] = cl_r
    if not cl_r:
        return
    cdir = os.path.join(env.work, "cloneprobe")
    os.makedirs(os.path.join(cdir, "src"), exist_ok=True)
    with open(os.path.join(cdir, "Cargo.toml.in"), "w") as fh:
        fh.write('[package]\nname = "hpke-verif-probe-clone"\nversion = "0.0.0"\nedition = "2021"\npublish = false\n\n[dependencies]\n'
                 'hpke = { path = "@REPO@", default-features = false, features = ["alloc", "x25519"] }\n\n[workspace]\n')
    with open(os.path.join(cdir, "src", "main.rs"), "w") as fh:
        fh.write(CLONE_PROBE)
    fw.prepare_crate(cdir)
    e = dict(fw.BASE_ENV)
    e["RUSTFLAGS"] = "--cfg %s" % fw.GUARD
    p = subprocess.run(["cargo", "run", "--offline", "--target-dir", os.path.join(fw.VERIF, "target", "probe-hooks")], cwd=cdir, env=e,
                       stdout=subprocess.PIPE, stderr=subprocess.STDOUT, text=True, timeout=1800)
    env.count("evaluations", 1)
    if "CLONE_PROBE_DONE" not in p.stdout:
        env.note("the receiver context is Clone but the clone probe did not build or finish: %s" % p.stdout[-300:])
        return
    bad = [l for l in p.stdout.splitlines() if l.startswith("CLONE_DIFFERS")]
    if bad:
        env.violation("C05:clone_differs", "a clone of a receiver context does not behave like the context it was cloned from (%d differences), e.g. %s" % (len(bad), bad[0][:300]), workload="histories")
    else:
        env.seen("clone-probe")


def build_foreign(env):
    g = gen.G(env.rnd)
    cw = cl.CaseW()
    from ref import aead as refaead
    for i, aead in enumerate(gen.SEAL_AEADS):
        s = cw.session(0x0020, 1, aead, sid="F%d" % i)
        key, bn, es = g.raw(refaead.params(aead)[0]), g.raw(12), g.raw(32)
        s.call("raw_s", key=key, bn=bn, es=es, out="S")
        s.call("raw_r", key=key, bn=bn, es=es, out="R")
        for p in (0, 5, (1 << 32) - 1):
            s.call("set_seq", ctx="S", seq=p)
            s.call("set_seq", ctx="R", seq=p)
            s.call("seal", ctx="S", api="inplace", pt="a0a1a2", aad="-", out="m")
            for alias in (1 << 8, 1 << 16, 1 << 32, 1 << 40, 3 << 32):
                if p + alias < M64:
                    s.call("set_seq", ctx="R", seq=p + alias)
                    s.call("open", ctx="R", api="inplace", ct="$m.ct", tag="$m.tag", aad="-", kind="alias")
            s.call("set_seq", ctx="R", seq=p)
            s.call("open", ctx="R", api="inplace", ct="$m.ct", tag="$m.tag", aad="-", kind="next")
    return cw


MONITORS = {"mock_panics": monitor_mock, "histories": monitor, "longrun": monitor, "foreign": monitor, "special_tags": monitor}


def run(env):
    nhist, maxsteps = env.pick((360, 80), (5000, 400))
    starts = [0, 0, "rand", 255, 65535, (1 << 32) - 1, M64 - 3, M64 - 2, M64 - 10, (1 << 56) - 1, M64 - 1]
    cw = build(env, nhist, maxsteps, starts)
    res = env.drive("histories", cw.text())
    env.require_complete(res, "histories")
    mr = env.pmap(monitor, res.sessions, workload="histories")
    res_f = env.drive("histories", cw.text(), build="fast")
    env.require_complete(res_f, "histories/fast")
    env.pmap(monitor, res_f.sessions, workload="histories")
    env.extra_cov["histories"] = mr.counts["histories"]
    res5 = env.drive("mock_panics", build_mock_panics(env, env.pick(8, 60)).text())
    env.require_complete(res5, "mock_panics")
    mr5 = env.pmap(monitor_mock, res5.sessions, workload="mock_panics")
    env.extra_cov["aead_panics_inside_open"] = mr5.counts["aead_panics_driven"]
    clone_probe(env)
    res4 = env.drive("special_tags", build_special_tags(env, env.pick(2, 12)).text())
    env.require_complete(res4, "special_tags")
    mr4 = env.pmap(monitor, res4.sessions, workload="special_tags")
    got = sum(1 for s4 in res4.sessions for o in s4.ops if o.op == "seal" and o.ok() and "special_tag" in o.args and (o.ret.get("tag") or o.ret.get("full", "")[-32:]) == o.args["special_tag"])
    env.extra_cov["genuine_messages_with_constructed_tags"] = got
    aeads = [gen.SEAL_AEADS[env.seed % 3]] if env.quick() else gen.SEAL_AEADS
    res2 = env.drive("longrun", build_longrun(env, env.pick(66000, 140000), aeads).text())
    env.require_complete(res2, "longrun")
    env.pmap(monitor, res2.sessions, workload="longrun")
    env.extra_cov["longest_run_of_rejected_deliveries"] = env.pick(66000, 140000)
    if not env.quick():
        reject_storm(env)
        ftext = build_foreign(env).text()
        foreign = {}
        # (target, cargo features): conjunctions of target and feature set select code too (e.g. a 32-bit no-alloc path)
        for target, feats in (("i686-unknown-linux-gnu", None), ("s390x-unknown-linux-gnu", None), ("aarch64-unknown-linux-gnu", None), ("powerpc-unknown-linux-gnu", None),
                              ("i686-unknown-linux-gnu", ["x25519"]), ("s390x-unknown-linux-gnu", ["x25519", "std"])):
            sessions, note = fw.run_miri(env, "foreign-" + target.split("-")[0] + ("-" + "-".join(feats) if feats else ""), ftext, target=target, features=feats)
            foreign[target + ("+" + ",".join(feats) if feats else "")] = note
            if sessions is not None:
                env.pmap(monitor, sessions, workload="foreign", procs=1)
        env.extra_cov["foreign_targets_under_miri"] = foreign
    if mr.counts["verdict:accept"] < 100 or mr.counts["verdict:reject"] < 100 or mr.counts["verdict:limit"] < 20:
        if not env.violations:
            raise fw.Inconclusive("workload too thin: %s" % {k: v for k, v in mr.counts.items() if k.startswith("verdict")})


def replay(env, path):
    import props.c05 as me
    fw.generic_replay(env, me, path)
