"""C17 - every feature combination builds and behaves the same; with the verification guard off
the crate is unchanged.

The build is the step that makes execution possible; the deciding observations are executions:
  * the crate's own tests under each feature subset (known-answer test skipped: its vector file
    is empty in this tree and it is not a self-consistency test),
  * the driver built with the same subset replaying a fixed corpus: every operation it can
    execute must give byte-identical results to the all-features build,
  * two presence probes (in-place APIs: always build and run; allocating APIs: build iff alloc|std),
  * the bundled examples built and run, the bench target built,
  * guard on vs guard off: identical corpus results (hook-only fields aside), baseline tests pass."""
import concurrent.futures
import itertools
import os
import re
import subprocess
import time

from lib import caselang as cl
from lib import framework as fw
from lib import gen

RULE = ("one case = one feature subset taken through {crate tests, corpus replay vs the all-features build, API presence probes}; "
        "distinct = distinct feature subsets that completed all steps; thorough enumerates all 64 subsets")
ASSUMPTIONS = ["'compiles' and 'API present' are build outcomes observed by running the compiler; they are labelled as such",
               "kat_tests::kat_test is skipped everywhere (vector file deliberately empty in this tree)"]

FEATS = ["alloc", "std", "x25519", "p256", "p384", "p521"]
KEM_OF = {"x25519": 0x0020, "p256": 0x0010, "p384": 0x0011, "p521": 0x0012}
HOOK_FIELDS = ("seq", "ovf", "bn", "es", "lb", "la")


def corpus(env):
    """A fixed (seed-independent) corpus over all KEMs, sealing and export-only, both API forms."""
    import random
    rnd = random.Random(17)
    g = gen.G(rnd)
    cw = cl.CaseW()
    for kem in gen.KEMS:
        for (kdf, aead) in ((1, 1), (2, 2), (3, 3), (2, 0xFFFF)):
            for mode in gen.MODES:
                s = cw.session(kem, kdf, aead, sid="k%04x_%d_%04x_%d" % (kem, kdf, aead, mode))
                s.call("sizes")
                s.call("errfmt")
                gen.add_pair(s, g, kem, mode, info=g.rbytes(rnd.choice([0, 10])))
                if aead != 0xFFFF:
                    aad0 = g.rbytes(rnd.choice([0, 4]))
                    # contexts S/R only ever see in-place calls, S2/R2 only allocating calls, so a build
                    # without the allocating API follows S/R exactly and merely skips the S2/R2 calls
                    for i in range(3):
                        s.call("seal", ctx="S", api="inplace", pt=g.rbytes(rnd.choice([0, 1, 16, 33])), aad=aad0, out="m%d" % i)
                    s.call("open", ctx="R", api="inplace", ct="$m0.ct", tag="$m0.tag", aad=aad0)
                    s.call("open", ctx="R", api="inplace", ct="$m2.ct", tag="$m2.tag", aad=aad0)
                    s.call("open", ctx="R", api="inplace", ct="$m1.ct", tag="$m1.tag", aad=aad0)
                    gen.add_pair(s, g, kem, mode, info="aa", sname="S2", rname="R2", new_keys=False)
                    for i in range(2):
                        s.call("seal", ctx="S2", api="alloc", pt=g.rbytes(rnd.choice([0, 1, 16, 33])), aad=aad0, out="a%d" % i)
                        s.call("open", ctx="R2", api="alloc", ct="$a%d.full" % i, aad=aad0)
                    s.call("open", ctx="R2", api="alloc", ct="00" * 20, aad="-")
                    s.call("ss_seal", mode=0, pkr="$kR.pk", info="-", pt="0a0b", aad="-", rng=g.rbytes(gen.nsk(kem)), api="inplace", out="q")
                    s.call("ss_open", mode=0, skr="$kR.sk", enc="$q.enc", info="-", ct="$q.ct", tag="$q.tag", aad="-", api="inplace")
                    s.call("ss_seal", mode=0, pkr="$kR.pk", info="-", pt="0a0b", aad="-", rng=g.rbytes(gen.nsk(kem)), api="alloc", out="q2")
                    s.call("ss_open", mode=0, skr="$kR.sk", enc="$q2.enc", info="-", ct="$q2.full", aad="-", api="alloc")
                s.call("export", ctx="S", exctx="-", len=40)
                s.call("export", ctx="R", exctx="-", len=40)
                # long inputs everywhere a caller can put them (fixed-size scratch buffers differ per feature set)
                for L in (300, 491, 600, 5000):
                    s.call("export", ctx="R", exctx="@z:61:%d" % L, len=64)
                big = dict(psk="@z:70:700", pskid="@z:69:900") if mode in (1, 3) else {}
                if mode in (2, 3):
                    big.update(sks="$kS.sk", pks="$kS.pk")
                s.call("setup_s", mode=mode, pkr="$kR.pk", info="@z:62:3000", rng=g.rbytes(gen.nsk(kem)), out="BS", **big)
                s.call("export", ctx="BS", exctx="@z:63:2000", len=8160)
                if aead != 0xFFFF:
                    s.call("seal", ctx="BS", api="inplace", pt="@z:64:5000", aad="@z:65:70000", out="bm")
                # inputs every build has to refuse in the same way
                bad_enc = "00" * 32 if kem == 0x0020 else "$kR.pk^flip:9"
                s.call("setup_r", mode=0, skr="$kR.sk", enc=bad_enc, info="-", out="BAD")
                s.call("decap", skr="$kR.sk", enc=bad_enc)
                s.call("setup_s", mode=0, pkr=bad_enc, info="-", rng=g.rbytes(gen.nsk(kem)), out="BAD2")
                if kem == 0x0020:
                    s.call("decap", skr="$kR.sk", enc="01" + "00" * 31)
                    s.call("decap", skr="$kR.sk", enc="ecffffffffffffffffffffffffffffffffffffffffffffffffffffffffffff7f")
                s.call("from_bytes", kind="pk", bytes="$kR.pk^flip:9")
                s.call("from_bytes", kind="sk", bytes="$kR.sk^trunc:5")
                # private keys sharing long prefixes, back to back
                nskk = gen.nsk(kem)
                basek = bytearray(g.raw(nskk))
                if kem != 0x0020:
                    basek[0] = 0
                for tail in (g.raw(nskk - 32) if nskk > 32 else b"", g.raw(nskk - 32) if nskk > 32 else b"", None):
                    skx = bytes(basek[:32]) + tail if tail is not None and nskk > 32 else bytes(basek)
                    s.call("sk_to_pk", sk=skx)
                    s.call("decap", skr=skx, enc="$kR.pk")
                s.call("encap", pkr="$kR.pk", rng=g.rbytes(gen.nsk(kem)), out="e")
                s.call("decap", skr="$kR.sk", enc="$e.enc")
    return cw.text()


def subsets(tier):
    allsubs = [tuple(f for f, b in zip(FEATS, bits) if b) for bits in itertools.product([0, 1], repeat=6)]
    if tier == "thorough":
        return allsubs
    pick = [(), ("alloc",), ("std",), ("x25519",), ("p256",), ("p384",), ("p521",), ("alloc", "p256", "x25519"),
            tuple(FEATS), ("alloc", "p384"), ("std", "p521"),
            # pairs of KEMs without the largest one, with the defaults, without alloc
            ("alloc", "x25519", "p256", "p384"), ("std", "p384", "p521"), ("x25519", "p384")]
    return pick


def sh(cmd, cwd, env, timeout):
    t0 = time.time()
    try:
        p = subprocess.run(cmd, cwd=cwd, env=env, stdout=subprocess.PIPE, stderr=subprocess.STDOUT, timeout=timeout, text=True)
        return p.returncode, p.stdout, time.time() - t0
    except subprocess.TimeoutExpired as e:
        return None, (e.stdout or "") if isinstance(e.stdout, str) else "", time.time() - t0


def classify_build_failure(out):
    """'crate' if rustc rejected code (a finding), 'env' if the toolchain/registry is the problem"""
    if re.search(r"failed to (download|get|fetch|load source)|no matching package|unable to update registry|can't checkout|offline", out):
        return "env"
    if re.search(r"^error(\[E\d+\])?:", out, re.M):
        return "crate"
    return "env"


def one_subset(args):
    feats, worker, text_path, do_tests = args
    fs = ",".join(feats)
    tdir = os.path.join(fw.VERIF, "target", "feat%d" % worker)
    e = dict(fw.BASE_ENV)
    e["CARGO_BUILD_JOBS"] = "4"
    out = {"features": fs, "steps": {}, "violations": [], "inconclusive": [], "events": None}
    fargs = ["--no-default-features"] + (["--features", fs] if fs else [])
    # 1. crate tests, guard off
    if do_tests:
        e1 = dict(e)
        e1.pop("RUSTFLAGS", None)
        rc, o, dt = sh(["cargo", "test", "--offline", "--lib", "--target-dir", tdir] + fargs + ["--", "--skip", "kat_test"], fw.REPO, e1, 1800)
        m = re.search(r"test result: (\w+)\. (\d+) passed; (\d+) failed", o)
        out["steps"]["tests"] = {"rc": rc, "passed": int(m.group(2)) if m else None, "failed": int(m.group(3)) if m else None, "s": round(dt, 1)}
        if rc is None:
            out["inconclusive"].append("cargo test [%s]: watchdog" % fs)
        elif rc != 0:
            if m and int(m.group(3)) > 0:
                failed = re.findall(r"^test (\S+) \.\.\. FAILED", o, re.M)
                out["violations"].append(("C17:tests:%s" % (failed[0] if failed else "?"), "crate tests fail with features [%s]: %s" % (fs, ", ".join(failed[:5]))))
            elif classify_build_failure(o) == "crate":
                errs = re.findall(r"^error.*$", o, re.M)[:3]
                out["violations"].append(("C17:build_tests", "the crate's tests do not compile with features [%s]: %s" % (fs, " | ".join(errs))))
            else:
                out["inconclusive"].append("cargo test [%s] failed for environmental reasons: %s" % (fs, o[-300:]))
    # 1b. dependency features: a subset without `std` must not switch on `std` in any normal dependency
    if "std" not in feats:
        rc, o, dt = sh(["cargo", "tree", "--offline", "-e", "features,normal"] + fargs, fw.REPO, e, 300)
        leaks = sorted(set(re.findall(r"([A-Za-z0-9_-]+) feature \"std\"", o))) if rc == 0 else []
        out["steps"]["std_features_in_dependencies"] = leaks
        if leaks:
            out["violations"].append(("C17:std_enabled_in_dependency:%s" % leaks[0],
                                      "with features [%s] (no std) the dependency graph enables the `std` feature of %s: a no_std consumer can no longer build on the crate (build-graph observation)" % (fs, ", ".join(leaks))))
    # 2. driver with the same subset (hooks on), corpus replay
    b = fw.Build("feat%d" % worker, features=list(feats), no_default=True)
    e2 = dict(e)
    try:
        os.environ["CARGO_BUILD_JOBS"] = "4"
        # separate copy of the harness manifest is not needed: same crate, different target dir + features
        path, dt = fw.build_driver(b)
        out["steps"]["driver_build_s"] = round(dt, 1)
        ev = os.path.join(fw.VERIF, "work", "C17", "corpus.%s.ev" % (fs.replace(",", "+") or "none"))
        p = subprocess.run([path, "run", text_path, ev], stdout=subprocess.PIPE, stderr=subprocess.PIPE, timeout=600)
        out["steps"]["driver_rc"] = p.returncode
        if p.returncode != 0:
            out["violations"].append(("C17:driver_crash", "corpus replay crashed with features [%s]: %s" % (fs, p.stderr.decode()[-300:])))
        out["events"] = ev
    except fw.BuildFailed as ex:
        if classify_build_failure(ex.tail) == "crate":
            errs = re.findall(r"^error.*$", ex.tail, re.M)[:3]
            out["violations"].append(("C17:build_lib", "the library (or the driver against it) does not compile with features [%s]: %s" % (fs, " | ".join(errs))))
        else:
            out["inconclusive"].append("driver build [%s]: %s" % (fs, ex.tail[-300:]))
    except (fw.Inconclusive, subprocess.TimeoutExpired) as ex:
        out["inconclusive"].append("driver [%s]: %s" % (fs, str(ex)[-300:]))
    # 3. presence probes
    for probe, must in (("inplace", True), ("alloc", ("alloc" in feats or "std" in feats))):
        cdir = os.path.join(fw.VERIF, "probes", probe)
        # each worker needs its own copy of the manifest dir to avoid lock contention on Cargo.lock
        rc, o, dt = sh(["cargo", "run", "--offline", "--target-dir", tdir] + fargs, cdir, e, 900)
        ok = rc == 0 and ("%s-probe-ok" % probe) in o
        out["steps"]["probe_%s" % probe] = {"built_and_ran": ok, "expected": must}
        if rc is None:
            out["inconclusive"].append("probe %s [%s]: watchdog" % (probe, fs))
        elif ok != must:
            if not ok and classify_build_failure(o) != "crate":
                out["inconclusive"].append("probe %s [%s] failed for environmental reasons: %s" % (probe, fs, o[-200:]))
            else:
                errs = re.findall(r"^error.*$", o, re.M)[:3]
                what = "in-place" if probe == "inplace" else "allocating"
                out["violations"].append(("C17:api_presence:%s:%s" % (probe, "missing" if must else "unexpectedly_present"),
                                          "%s APIs are %s with features [%s] %s" % (what, "missing" if must else "present although neither alloc nor std is enabled", fs, " | ".join(errs))))
    return out


def strip_hook_fields(ret):
    return {k: v for k, v in ret.items() if k not in HOOK_FIELDS}


def compare_events(ref_sessions, sessions, feats, env, label):
    """every operation executed under `feats` must equal the reference build's result"""
    ref = {s.sid: s for s in ref_sessions}
    enabled = {KEM_OF[f] for f in feats if f in KEM_OF}
    alloc = "alloc" in feats or "std" in feats
    compared = 0
    for s in sessions:
        rs = ref.get(s.sid)
        if rs is None:
            continue
        rops = {o.id: o for o in rs.ops}
        for op in s.ops:
            rop = rops.get(op.id)
            if rop is None:
                continue
            if op.ret is None:
                env.violation("C17:noreturn:%s" % label, "driver died in %s with features [%s]" % (op.id, ",".join(feats)), case_text=s.case_text(op.id), workload="corpus")
                return compared
            if op.skipped():
                why = op.skipped()
                legit = (why == "suite_not_compiled" and s.ids[0] not in enabled) or (why == "noalloc" and not alloc) or why in ("noctx", "nohooks", "nohooks_or_badlen")
                if not legit:
                    env.violation("C17:missing:%s" % why, "operation %s skipped (%s) although features [%s] should provide it" % (op.raw[:80], why, ",".join(feats)), workload="corpus")
                continue
            if rop.skipped() or rop.ret is None:
                continue
            if "caseerr" in op.ret:
                continue  # a register that an earlier, legitimately skipped operation would have produced
            a, b = strip_hook_fields(op.ret), strip_hook_fields(rop.ret)
            compared += 1
            if a != b:
                diff = [k for k in set(a) | set(b) if a.get(k) != b.get(k)]
                env.violation("C17:outputs_differ:%s" % op.op, "with features [%s] %s gives different results than under the full feature set (fields %s)" % (",".join(feats), op.raw[:120], diff),
                              case_text=s.case_text(op.id), workload="corpus")
                return compared
    return compared


def run(env):
    os.makedirs(env.work, exist_ok=True)
    text = corpus(env)
    text_path = os.path.join(env.work, "corpus.case")
    open(text_path, "w").write(text)
    for p in ("inplace", "alloc"):
        fw.prepare_crate(os.path.join(fw.VERIF, "probes", p))
    # reference: all features, hooks on (the normal checked build)
    res = env.drive("corpus-ref", text, build="checked")
    env.require_complete(res, "corpus-ref")
    ref_sessions = res.sessions
    subs = subsets(env.tier)
    nworkers = 4 if env.quick() else 6
    jobs = [(feats, i % nworkers, text_path, True) for i, feats in enumerate(subs)]
    # one worker = one target dir; jobs of a worker run sequentially
    by_worker = {}
    for j in jobs:
        by_worker.setdefault(j[1], []).append(j)

    def run_worker(js):
        return [one_subset(j) for j in js]

    results = []
    with concurrent.futures.ThreadPoolExecutor(nworkers) as ex:
        for r in ex.map(run_worker, by_worker.values()):
            results += r
    table = []
    for r in results:
        feats = tuple(f for f in r["features"].split(",") if f)
        for sig, msg in r["violations"]:
            env.violation(sig, msg, workload="features")
        env.inconclusive += r["inconclusive"]
        compared = 0
        if r["events"] and os.path.exists(r["events"]):
            sessions, problems = cl.parse_events(r["events"])
            compared = compare_events(ref_sessions, sessions, feats, env, r["features"])
        env.count("evaluations", 1 + compared)
        complete = not r["violations"] and not r["inconclusive"]
        if complete:
            env.seen(r["features"] or "(none)")
        row = dict(r["steps"])
        row["features"] = r["features"] or "(none)"
        row["corpus_ops_compared"] = compared
        table.append(row)
    env.extra_cov["subsets"] = table
    env.samples = table[:3]
    env.exhaustive = len(subs) == 64 and len(env.distinct) == 64
    reported_compiler_probe(env, subs)
    guard_and_targets(env, text, ref_sessions)


def reported_compiler_probe(env, subs):
    """Code can be selected by the compiler VERSION (rustversion, autocfg, version_check all ask `rustc --version`).  No
    older toolchain is installed, but the version string is all they see: a shim reports the README's MSRV (1.65.0) and
    1.80.0 and otherwise runs the real compiler.  Code written for an older compiler is valid for the real one, so
    `cargo check` must succeed for every feature subset exactly as it does without the shim."""
    real = subprocess.run(["rustup", "which", "rustc"], stdout=subprocess.PIPE, text=True).stdout.strip() or "rustc"
    ver = subprocess.run([real, "--version"], stdout=subprocess.PIPE, text=True).stdout
    m = re.match(r"rustc (\d+\.\d+\.\d+)", ver)
    if not m:
        env.note("reported-compiler probe: cannot read the compiler's version (%r)" % ver[:60])
        return
    table = {}
    for v in ("1.65.0", "1.80.0"):
        shim = os.path.join(env.work, "rustc-%s" % v)
        with open(shim, "w") as fh:
            fh.write("#!/bin/sh\nfor a in \"$@\"; do\n  case \"$a\" in\n    -vV|--version|-V)\n      \"%s\" \"$@\" | sed 's/%s/%s/g'\n      exit 0 ;;\n  esac\ndone\nexec \"%s\" \"$@\"\n" % (
                real, m.group(1).replace(".", "\\."), v, real))
        os.chmod(shim, 0o755)
        e = dict(fw.BASE_ENV)
        e.pop("RUSTFLAGS", None)
        e["RUSTC"] = shim
        okc = 0
        for feats in subs:
            fl = ",".join(feats)
            rc, o, dt = sh(["cargo", "check", "--offline", "--ignore-rust-version", "--lib", "--no-default-features", "--features", fl,
                            "--target-dir", os.path.join(fw.VERIF, "target", "shim-" + v)], fw.REPO, e, 1800)
            env.count("evaluations", 1)
            if rc == 0:
                okc += 1
            elif rc is None:
                env.inconclusive.append("reported-compiler probe %s [%s]: watchdog" % (v, fl))
            elif classify_build_failure(o) == "crate":
                env.violation("C17:does_not_compile_for_reported_compiler:%s" % v, "with a compiler that reports version %s the crate does not compile with features [%s] (it does with the same compiler reporting %s): %s" % (
                    v, fl, m.group(1), " | ".join(re.findall(r"^error.*$", o, re.M)[:3])), workload="features")
            else:
                env.inconclusive.append("reported-compiler probe %s [%s] failed outside the crate: %s" % (v, fl, o[-200:]))
        table[v] = {"subsets_checked": len(subs), "compiled": okc}
    env.extra_cov["reported_compiler_versions"] = table


def guard_and_targets(env, text, ref_sessions):
    e = dict(fw.BASE_ENV)
    e.pop("RUSTFLAGS", None)
    tdir = os.path.join(fw.VERIF, "target", "feat0")
    # guard off: corpus results identical apart from hook-only fields and hook-only operations
    res = env.drive("corpus-nohooks", text, build="nohooks")
    env.require_complete(res, "corpus-nohooks")
    n = compare_events(ref_sessions, res.sessions, tuple(FEATS), env, "guard_off")
    env.extra_cov["guard_off_ops_compared"] = n
    env.count("evaluations", n)
    # baseline test command with the guard off (the repo's own target dir is left alone)
    rc, o, dt = sh(["cargo", "test", "--workspace", "--no-fail-fast", "--offline", "--target-dir", tdir], fw.REPO, e, 1800)
    passed = sum(int(x) for x in re.findall(r"test result: ok\. (\d+) passed", o))
    failed = re.findall(r"^test (\S+) \.\.\. FAILED", o, re.M)
    env.extra_cov["baseline_guard_off"] = {"rc": rc, "passed": passed, "failed": failed[:5]}
    if rc is None:
        env.inconclusive.append("baseline tests: watchdog")
    elif rc != 0 or failed:
        if failed or classify_build_failure(o) == "crate":
            env.violation("C17:baseline_guard_off", "the baseline test command fails with the guard off: %s" % (failed or re.findall(r"^error.*$", o, re.M)[:3]), workload="features")
        else:
            env.inconclusive.append("baseline tests failed for environmental reasons: %s" % o[-300:])
    # all-features tests with the guard ON (hooks must not break the crate's own tests)
    e2 = dict(e)
    e2["RUSTFLAGS"] = "--cfg hpke_verif"
    rc, o, dt = sh(["cargo", "test", "--offline", "--lib", "--all-features", "--target-dir", os.path.join(fw.VERIF, "target", "feat1"), "--", "--skip", "kat_test"], fw.REPO, e2, 1800)
    failed = re.findall(r"^test (\S+) \.\.\. FAILED", o, re.M)
    env.extra_cov["tests_guard_on_all_features"] = {"rc": rc, "failed": failed[:5]}
    if rc not in (0, None) and (failed or classify_build_failure(o) == "crate"):
        env.violation("C17:tests_guard_on", "crate tests fail with --cfg hpke_verif: %s" % (failed or re.findall(r"^error.*$", o, re.M)[:3]), workload="features")
    # examples built and run, bench built
    # every example under exactly the required-features its manifest entry declares (on top of the default features,
    # which is what `cargo run --example X --features ...` gives a user)
    import tomllib
    with open(os.path.join(fw.REPO, "Cargo.toml"), "rb") as fh:
        manifest = tomllib.load(fh)
    examples = [(ex["name"], ",".join(ex.get("required-features", []))) for ex in manifest.get("example", [])]
    present = {os.path.splitext(f)[0] for f in os.listdir(os.path.join(fw.REPO, "examples")) if f.endswith(".rs")}
    for missing in sorted(present - {n for n, _ in examples}):
        examples.append((missing, ""))
    env.extra_cov["examples_from_manifest"] = examples
    for name, feats in examples:
        cmd = ["cargo", "run", "--offline", "--example", name, "--target-dir", tdir] + (["--features", feats] if feats else [])
        rc, o, dt = sh(cmd, fw.REPO, e, 1800)
        env.extra_cov["example_" + name] = {"rc": rc, "s": round(dt, 1)}
        env.count("evaluations", 1)
        if rc is None:
            env.inconclusive.append("example %s: watchdog" % name)
        elif rc != 0:
            if classify_build_failure(o) == "crate" or "panicked" in o:
                env.violation("C17:example:%s" % name, "example %s fails under its required features: %s" % (name, o[-400:]), workload="features")
            else:
                env.inconclusive.append("example %s failed for environmental reasons: %s" % (name, o[-300:]))
    rc, o, dt = sh(["cargo", "bench", "--offline", "--no-run", "--all-features", "--target-dir", tdir], fw.REPO, e, 2400)
    env.extra_cov["bench_build"] = {"rc": rc, "s": round(dt, 1)}
    if rc not in (0, None):
        if classify_build_failure(o) == "crate":
            env.violation("C17:bench", "the bench target does not build: %s" % re.findall(r"^error.*$", o, re.M)[:3], workload="features")
        else:
            env.inconclusive.append("bench build failed for environmental reasons: %s" % o[-300:])
    # auxiliary lint (not the deciding step): every line added by the hook commits sits behind the guard
    audit_hooks(env)


def audit_hooks(env):
    log = subprocess.run(["git", "-C", fw.REPO, "log", "--format=%H", "--grep", "^verif hooks:"], stdout=subprocess.PIPE, text=True).stdout.split()
    removed = 0
    for c in log:
        # lines of files that the hooks themselves created (src/verif.rs) may be rewritten by later hook commits;
        # "add only" is about the upstream code
        d = subprocess.run(["git", "-C", fw.REPO, "show", "--format=", "--unified=0", c, "--", ".", ":(exclude)src/verif.rs"], stdout=subprocess.PIPE, text=True).stdout
        removed += len([l for l in d.splitlines() if l.startswith("-") and not l.startswith("---")])
    env.extra_cov["hook_commits"] = len(log)
    env.extra_cov["hook_commits_removed_lines"] = removed
    if removed:
        env.note("hook commits remove %d existing line(s): add_only does not hold" % removed)


MONITORS = {}


def replay(env, path):
    raise fw.Inconclusive("C17 violations are feature-subset outcomes; re-run ./check C17 (the replay file names the subset)")
