"""C01 - round trip: every sealed message, delivered in order, opens to its plaintext.
Self-consistency monitor over the real sender and receiver; no reference model involved."""
from lib import caselang as cl
from lib import framework as fw
from lib import gen

RULE = ("one case = one message sealed by a sender context and delivered in order to the matching "
        "receiver context; distinct = distinct (kem,kdf,aead,mode,pt-length class,aad-length class,"
        "seal api,open api) cells observed in the event log")
ASSUMPTIONS = ["the driver reports results faithfully (argument fingerprints cross-checked)",
               "a run is a sample of the input space, not a proof"]

APIS = ["alloc", "inplace"]


def build_cases(env, sessions_per_cell, maxmsgs, big_share):
    g = gen.G(env.rnd)
    cw = cl.CaseW()
    for (kem, kdf, aead) in gen.suites():
        for mode in gen.MODES:
            for k in range(sessions_per_cell):
                s = cw.session(kem, kdf, aead)
                info = g.blob(gen.LEN_SMALL + [4096], maxrand=300)
                psk = pskid = None
                if mode in (1, 3):
                    psk = g.rbytes(env.rnd.choice([1, 31, 32, 33, 64, 255, 4096]))
                    pskid = g.rbytes(env.rnd.choice([1, 2, 32, 255, 1024]))
                    if k == sessions_per_cell - 1 and (kdf + aead) % 2 == 0:
                        # the crate accepts an empty bundle in the PSK modes; it has to round-trip too
                        psk = pskid = "-"
                if mode in (2, 3) and k == 0 and (kdf + aead + kem) % 3 == 0:
                    # the sender authenticates with the very key pair the message is addressed to (legal, if unusual)
                    gen.add_keys(s, g, kem, "kR")
                    m = gen.add_pair(s, g, kem, mode, info=info, psk=psk, pskid=pskid, ks="kR", new_keys=False)
                else:
                    m = gen.add_pair(s, g, kem, mode, info=info, psk=psk, pskid=pskid)
                if env.rnd.random() < 0.5:
                    # the single-shot forms, opened by single-shot and by composed receivers, info != aad
                    for api in APIS:
                        q = "q" + api
                        sinfo = g.rbytes(env.rnd.choice([0, 3, 40]))
                        saad = g.rbytes(env.rnd.choice([0, 5, 33]))
                        s.meta[q] = saad
                        s.call("ss_seal", mode=mode, pkr="$kR.pk", info=sinfo, pt=g.rbytes(g.length(gen.LEN_SMALL, maxrand=300)), aad=saad,
                               rng=g.rbytes(gen.nsk(kem)), api=api, out=q, **m["sargs"])
                        ra = dict(mode=mode, skr="$kR.sk", enc="$%s.enc" % q, info=sinfo, **m["rargs"])
                        s.call("ss_open", api="alloc", ct="$%s.full" % q, aad=saad, of=q, **ra)
                        s.call("ss_open", api="inplace", ct="$%s.ct" % q, tag="$%s.tag" % q, aad=saad, of=q, **ra)
                        s.call("setup_r", out="R" + q, **ra)
                        s.call("open", ctx="R" + q, api="alloc", ct="$%s.full" % q, aad=saad, of=q)
                nm = [0, 1, 2][k] if k < 3 and sessions_per_cell >= 3 else env.rnd.randrange(1, maxmsgs + 1)
                if k == 0 and sessions_per_cell < 3:
                    nm = env.rnd.choice([1, 2, env.rnd.randrange(3, maxmsgs + 1)])
                lag = env.rnd.choice([0, 0, 1, 3, nm])
                sealed = []
                opened = 0

                def deliver():
                    nonlocal opened
                    m = sealed[opened]
                    api = env.rnd.choice(APIS)
                    if api == "alloc":
                        s.call("open", ctx="R", api="alloc", ct="$%s.full" % m, aad=s.meta[m], of=m)
                    else:
                        s.call("open", ctx="R", api="inplace", ct="$%s.ct" % m, tag="$%s.tag" % m, aad=s.meta[m], of=m)
                    opened += 1

                for i in range(nm):
                    big = env.rnd.random() < big_share
                    pool = gen.LEN if big else gen.LEN_SMALL
                    pt = g.rbytes(g.length(pool, maxrand=700))
                    aad = g.rbytes(g.length(pool if env.rnd.random() < 0.3 else gen.LEN_SMALL, maxrand=200))
                    name = "m%d" % i
                    s.meta[name] = aad
                    s.call("seal", ctx="S", api=env.rnd.choice(APIS), pt=pt, aad=aad, out=name)
                    sealed.append(name)
                    while len(sealed) - opened > lag:
                        deliver()
                while opened < len(sealed):
                    deliver()
    return cw


def monitor(sess, extra):
    r = fw.MonResult()
    nt = sess.nt()
    cell = "%04x/%d/%04x" % sess.ids
    seals = {}
    mode = None
    for op in sess.ops:
        if op.ret is None:
            r.violation("C01:noreturn:%s" % op.op, "%s never returned (process died in this call)" % op.id, sess, op)
            break
        if op.op in ("derive_keypair",):
            if not op.ok():
                r.violation("C01:keygen", "derive_keypair failed: %s" % op.outcome(), sess, op)
        elif op.op in ("setup_s", "setup_r"):
            mode = op.args.get("mode")
            if not op.ok():
                r.violation("C01:%s:%s" % (op.op, op.outcome()),
                            "%s with matching honest parameters failed: %s [suite %s mode %s]" % (op.op, op.outcome(), cell, mode), sess, op)
                return r
        elif op.op in ("seal", "ss_seal"):
            if not op.ok():
                r.violation("C01:seal:%s" % op.outcome(), "seal failed: %s [suite %s mode %s]" % (op.outcome(), cell, mode), sess, op)
                continue
            pt = op.b["pt"]
            if op.args["api"] == "alloc" and op.op == "seal":
                full = op.out("full")
                if len(full) != len(pt) + nt:
                    r.violation("C01:ctlen:alloc", "ciphertext length %d != plaintext length %d + tag %d" % (len(full), len(pt), nt), sess, op)
            else:
                ct, tag = op.out("ct"), op.out("tag")
                if len(ct) != len(pt) or len(tag) != nt:
                    r.violation("C01:ctlen:inplace", "in-place seal: buffer %d (plaintext %d), tag %d (Nt %d)" % (len(ct), len(pt), len(tag), nt), sess, op)
            seals[op.args["out"]] = op
        elif op.op in ("open", "ss_open") and "of" in op.args:
            so = seals.get(op.args["of"])
            if so is None:
                continue
            r.counts["evaluations"] += 1
            want = so.b["pt"]
            if not op.ok():
                r.violation("C01:open:%s" % op.outcome(),
                            "in-order delivery of message %s rejected: %s [suite %s mode %s, pt %d bytes, aad %d bytes, seal api %s, open api %s]"
                            % (op.args["of"], op.outcome(), cell, mode, len(want), len(op.b["aad"]), so.args["api"], op.args["api"]), sess, op)
                continue
            got = op.out("pt")
            same = (got.token == cl.outenc(want)) if isinstance(got, cl.Opaque) else (got == want)
            if not same:
                r.violation("C01:plaintext", "message %s opened to a different plaintext [suite %s mode %s]" % (op.args["of"], cell, mode), sess, op)
                continue
            r.distinct.add((sess.ids, mode, gen.lenclass(len(want)), gen.lenclass(len(op.b["aad"])), so.op + so.args["api"], op.op + op.args["api"]))
            r.counts["cell:%s/m%s" % (cell, mode)] += 1
            r.counts["api:%s%s->%s%s" % ("ss_" if so.op == "ss_seal" else "", so.args["api"], "ss_" if op.op == "ss_open" else "", op.args["api"])] += 1
            r.counts["ptlen:%s" % gen.lenclass(len(want))] += 1
    nm = len(seals)
    r.counts["seqlen:%s" % ("0" if nm == 0 else "1" if nm == 1 else "2" if nm == 2 else "3-15" if nm < 16 else "16+")] += 1
    if nm and len(r.samples) < 1:
        last = [o for o in sess.ops if o.op == "open"][-1]
        r.samples.append({"session": sess.header, "messages": nm, "last_open": last.raw[:200], "result": last.outcome()})
    return r


MONITORS = {"roundtrip": monitor}


def run(env):
    spc, maxm, big = env.pick((2, 12, 0.03), (12, 64, 0.05))
    cw = build_cases(env, spc, maxm, big)
    res = env.drive("roundtrip", cw.text())
    env.require_complete(res, "roundtrip")
    mr = env.pmap(monitor, res.sessions, workload="roundtrip")
    # the same workload on the build a user ships (no debug assertions, no overflow checks)
    res_f = env.drive("roundtrip", cw.text(), build="fast")
    env.require_complete(res_f, "roundtrip/fast")
    env.pmap(monitor, res_f.sessions, workload="roundtrip")
    cells = {k for k in mr.counts if k.startswith("cell:")}
    env.extra_cov["suite_mode_cells_covered"] = len(cells)
    env.extra_cov["sessions"] = len(res.sessions)
    env.extra_cov["driver_wall_s"] = round(res.wall, 2)
    # compact the per-cell counters out of the evidence
    for k in list(env.counts):
        if k.startswith("cell:"):
            del env.counts[k]
    if len(cells) < 144 and not env.violations:
        raise fw.Inconclusive("only %d of 144 suite/mode cells produced an opened message" % len(cells))
    if env.tier == "thorough":
        long_sessions(env)
        giant_messages(env)


def long_sessions(env):
    """One long session per AEAD: the counter crosses two byte carries on both sides."""
    g = gen.G(env.rnd)
    cw = cl.CaseW()
    for aead in gen.SEAL_AEADS:
        s = cw.session(0x0020, 1, aead)
        gen.add_pair(s, g, 0x0020, 0)
        for i in range(66000):
            name = "m%d" % i
            aad = "%04x" % (i & 0xFFFF)
            s.meta[name] = aad
            s.call("seal", ctx="S", api="inplace" if i & 1 else "alloc", pt=("%08x" % i), aad=aad, out=name)
            s.call("open", ctx="R", api="alloc" if i & 2 else "inplace", ct="$%s.full" % name if i & 2 else "$%s.ct" % name,
                   tag=None if i & 2 else "$%s.tag" % name, aad=aad, of=name)
    res = env.drive("long", cw.text())
    env.require_complete(res, "long")
    env.pmap(monitor, res.sessions, workload="roundtrip")
    for k in list(env.counts):
        if k.startswith("cell:"):
            del env.counts[k]
    env.extra_cov["long_sessions_messages"] = 66000 * 3


def giant_messages(env):
    """One message of 2^32 + 5 bytes per AEAD through in-place seal and both opening forms (tens of GiB of
    memory traffic; thorough tier only).  A byte-vs-block or 32-bit length confusion shows here and nowhere else."""
    g = gen.G(env.rnd)
    cw = cl.CaseW()
    n = (1 << 32) + 5
    for i, aead in enumerate(gen.SEAL_AEADS):
        s = cw.session(0x0020, 1, aead, sid="G%d" % i)
        gen.add_pair(s, g, 0x0020, 0)
        s.call("giant", cs="S", cr="R", len=n, aad="6161", api="inplace")
        s.call("giant", cs="S", cr="R", len=n, aad="-", api="alloc")
    res = env.drive("giant", cw.text(), build="fast", timeout=7200)
    env.require_complete(res, "giant")
    for s in res.sessions:
        for op in s.ops:
            if op.op != "giant":
                continue
            env.count("evaluations", 1)
            r = op.ret or {}
            if op.ret is None or r.get("seal") != "ok" or r.get("open") != "ok" or r.get("same") != "1" or r.get("encrypted") != "1":
                env.violation("C01:giant:%s:%s" % (r.get("seal"), r.get("open")), "a message of 2^32+5 bytes (%s opening form) did not round-trip: seal=%s open=%s same=%s" % (
                    op.args["api"], r.get("seal"), r.get("open"), r.get("same")), case_text=s.case_text(op.id), workload="giant")
            else:
                env.seen((s.ids, "giant", op.args["api"]))
    env.extra_cov["giant_message_bytes"] = n


def replay(env, path):
    fw.generic_replay(env, __import__("props.c01", fromlist=["x"]), path)
