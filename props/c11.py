"""C11 - secret export is pure, symmetric, RFC-exact and limited at 255*Nh; export-only suites
export the same way while their seal/open panic without producing output.

The expected value is computed in Python as LabeledExpand(exporter_secret, "sec", ctx, L) from the
exporter secret the context itself holds (read through the cfg(hpke_verif) hook), so this monitor
judges the export function and not the key schedule (that is C02's job)."""
from lib import caselang as cl
from lib import framework as fw
from lib import gen
from ref import hkdf

RULE = ("one case = one export call (or one seal/open call on an export-only context); the result is compared with "
        "LabeledExpand over the context's own exporter secret, with the other role's result and with the length rule; "
        "distinct = distinct (kem, kdf, aead, mode, role, L class, history position) combinations, plus every L within 40 of 255*Nh")
ASSUMPTIONS = ["hashlib HMAC as HKDF oracle (RFC 5869 vector in the self-test)",
               "the exporter secret is read from the live context through the hook; without hooks the monitor falls back to sender==receiver and repeatability only and says so"]

NH = {1: 32, 2: 48, 3: 64}


def lens_for(rnd, kdf, dense):
    nh = NH[kdf]
    lim = 255 * nh
    L = [0, 1, nh - 1, nh, nh + 1, 2 * nh, lim - 1, lim, lim + 1, 65535, 65536, 65537, 100000]
    L += [rnd.randrange(0, lim) for _ in range(3)] + [rnd.randrange(lim + 1, 70000) for _ in range(2)]
    if dense:
        L += list(range(lim - 40, lim + 41))
    return L


def build(env, per_cell, dense_share):
    g = gen.G(env.rnd)
    rnd = env.rnd
    cw = cl.CaseW()
    for ids in gen.suites(sealing_only=False):
        kem, kdf, aead = ids
        for mode in gen.MODES:
            for j in range(per_cell):
                s = cw.session(kem, kdf, aead, sid="e%d" % len(cw.sessions))
                gen.add_pair(s, g, kem, mode, info=g.rbytes(rnd.choice([0, 3, 64])))
                s.call("export", ctx="S", exctx="6578", len=32, hist=0)
                s.call("export", ctx="R", exctx="6578", len=32, hist=0)
                dense = rnd.random() < dense_share
                Ls = lens_for(rnd, kdf, dense)
                rnd.shuffle(Ls)
                nm = 0
                for i, L in enumerate(Ls):
                    ex = g.blob(gen.LEN, extra_random=0.5, maxrand=300) if rnd.random() < 0.5 else g.rbytes(rnd.choice([0, 1, 11]))
                    s.call("export", ctx="S", exctx=ex, len=L, hist=nm)
                    s.call("export", ctx="R", exctx=ex, len=L, hist=nm)
                    if rnd.random() < 0.2:
                        s.call("export", ctx=rnd.choice("SR"), exctx=ex, len=L, hist=nm, again=1)
                    # interleave context activity: seals, opens, failed opens
                    c = rnd.random()
                    if c < 0.35:
                        api = rnd.choice(["alloc", "inplace"])
                        name = "m%d" % nm
                        nm += 1
                        s.call("seal", ctx="S", api=api, pt=g.rbytes(rnd.choice([0, 5, 40])), aad="-", out=name)
                        if aead != 0xFFFF:
                            if rnd.random() < 0.3:
                                s.call("open", ctx="R", api="alloc", ct="00" * 20, aad="-")
                            s.call("open", ctx="R", api="alloc", ct="$%s.full" % name, aad="-")
                        else:
                            s.call("open", ctx="R", api=api, ct=rnd.choice(["00" * 9, "-", "00"]), tag="-" if api == "inplace" else None, aad="-")
                            s.call("seal", ctx="S", api=api, pt="-", aad="-", out="empty%d" % nm)
                # some sessions run both contexts to exhaustion and export again: same arguments, same values
                if aead != 0xFFFF and rnd.random() < 0.35:
                    first = Ls[:3]
                    s.call("set_seq", ctx="S", seq=(1 << 64) - 1)
                    s.call("set_seq", ctx="R", seq=(1 << 64) - 1)
                    s.call("seal", ctx="S", api="alloc", pt="aa", aad="-", out="last")
                    s.call("open", ctx="R", api="alloc", ct="$last.full", aad="-")
                    s.call("seal", ctx="S", api="alloc", pt="aa", aad="-", out="toolate")
                    for L in first + [32]:
                        s.call("export", ctx="S", exctx="6578", len=L, hist="exhausted")
                        s.call("export", ctx="R", exctx="6578", len=L, hist="exhausted")
    return cw


def monitor(sess, extra):
    r = fw.MonResult()
    kem, kdf, aead = sess.ids
    suite_id = b"HPKE" + kem.to_bytes(2, "big") + kdf.to_bytes(2, "big") + aead.to_bytes(2, "big")
    lim = 255 * NH[kdf]
    es = {}
    mode = None
    last = {}
    for op in sess.ops:
        if op.ret is None:
            r.violation("C11:noreturn:%s" % op.op, "%s never returned" % op.id, sess, op)
            break
        if op.op in ("setup_s", "setup_r"):
            mode = op.args["mode"]
            if not op.ok():
                r.inconclusive.append("honest setup failed in C11 workload")
                return r
            v = op.out("es")
            es[op.args["out"]] = v
        elif op.op == "export":
            name = op.args["ctx"]
            L = int(op.args["len"])
            exctx = op.b["exctx"]
            r.counts["evaluations"] += 1
            key = (cl.outenc(exctx), L)
            if L > lim:
                if op.err() != "KdfOutputTooLong":
                    r.violation("C11:length_limit:%s" % ("ok" if op.ok() else op.outcome()),
                                "export of %d bytes (limit 255*Nh = %d) returned %s instead of KdfOutputTooLong" % (L, lim, op.outcome()), sess, op)
                    continue
            else:
                if not op.ok():
                    r.violation("C11:refused_valid_length:%s" % op.outcome(), "export of %d bytes (limit %d) failed with %s" % (L, lim, op.outcome()), sess, op)
                    continue
                got = op.ret["out"]
                if es.get(name) is not None:
                    want = cl.outenc(hkdf.labeled_expand(kdf, es[name], suite_id, b"sec", exctx, L))
                    if got != want:
                        r.violation("C11:value", "export(ctx %d bytes, L=%d) on the %s differs from LabeledExpand(exporter_secret, \"sec\", ctx, L)" % (len(exctx), L, "sender" if name == "S" else "receiver"), sess, op)
                        continue
                else:
                    r.counts["no_hook_value_unchecked"] += 1
                # symmetric / repeatable / history-independent: every result for the same (ctx, L) in this session agrees
                if key in last and last[key][0] != got:
                    r.violation("C11:not_pure", "export with identical arguments returned different values (%s after %s earlier messages vs %s after %s)" % (
                        name, op.args.get("hist"), last[key][1], last[key][2]), sess, op)
                    continue
                last[key] = (got, name, op.args.get("hist"))
            cls = "over" if L > lim else "at_limit" if L >= lim - 1 else gen.lenclass(L)
            h = op.args.get("hist", "0")
            r.distinct.add((sess.ids, mode, name, cls, h if not h.isdigit() else min(int(h), 3)))
            if h == "exhausted":
                r.counts["exports_on_exhausted_contexts"] += 1
            if abs(L - lim) <= 40:
                r.distinct.add(("near_limit", kdf, L))
            r.counts["role:%s" % name] += 1
        elif op.op in ("seal", "open") and aead == 0xFFFF:
            r.counts["evaluations"] += 1
            if op.panic() is None:
                r.violation("C11:export_only_%s_returned" % op.op, "%s on an export-only context returned %s instead of panicking" % (op.op, op.outcome()), sess, op)
                continue
            if op.args.get("api") == "inplace":
                orig = op.b["pt"] if op.op == "seal" else op.b["ct"]
                if op.out("buf") != orig:
                    r.violation("C11:export_only_touched_buffer", "%s on an export-only context modified the caller's buffer before panicking" % op.op, sess, op)
                    continue
            r.distinct.add((sess.ids, mode, "export_only_" + op.op, op.args.get("api")))
            r.counts["export_only_panics"] += 1
    ex = [o for o in sess.ops if o.op == "export"]
    if ex and not r.samples:
        o = ex[len(ex) // 2]
        r.samples.append({"session": sess.header, "call": o.raw[:160], "result": o.outcome()[:60], "exports_in_session": len(ex)})
    return r


MONITORS = {"export": monitor}


def reject_run(env, n):
    """tens of thousands of rejected deliveries on one receiver must not change what it exports"""
    g = gen.G(env.rnd)
    cw = cl.CaseW()
    aead = gen.SEAL_AEADS[env.seed % 3]
    s = cw.session(0x0020, gen.KDFS[env.seed % 3], aead, sid="rr")
    gen.add_pair(s, g, 0x0020, 0)
    for L in (16, 32):
        s.call("export", ctx="S", exctx="6578", len=L, hist=0)
        s.call("export", ctx="R", exctx="6578", len=L, hist=0)
    for k in range(n):
        s.call("open", ctx="R", api="alloc" if k & 1 else "inplace", ct="%032x" % k, tag=None if k & 1 else "00" * 16, aad="-")
    for L in (16, 32):
        s.call("export", ctx="R", exctx="6578", len=L, hist="after_rejects")
        s.call("export", ctx="S", exctx="6578", len=L, hist="after_rejects")
    return cw


def panic_abort_probe(env):
    """With panic=abort nothing can catch the export-only panic: the process has to die in the call.
    A build in which seal/open RETURN on an export-only context has stopped panicking."""
    g = gen.G(env.rnd)
    n = 0
    for kind in ("seal_inplace", "seal_alloc", "open_inplace", "open_alloc", "ss_seal", "ss_open"):
        cw = cl.CaseW()
        s = cw.session(0x0020, 1 + n % 3, 0xFFFF, sid="pa%d" % n)
        n += 1
        gen.add_pair(s, g, 0x0020, 0)
        s.call("export", ctx="S", exctx="-", len=16)
        if kind == "seal_inplace":
            s.call("seal", ctx="S", api="inplace", pt="0102", aad="-", probe=kind)
        elif kind == "seal_alloc":
            s.call("seal", ctx="S", api="alloc", pt="0102", aad="-", probe=kind)
        elif kind == "open_inplace":
            s.call("open", ctx="R", api="inplace", ct="0102", tag="-", aad="-", probe=kind)
        elif kind == "open_alloc":
            s.call("open", ctx="R", api="alloc", ct="0102", aad="-", probe=kind)
        elif kind == "ss_seal":
            s.call("ss_seal", mode=0, pkr="$kR.pk", info="-", pt="01", aad="-", rng=g.rbytes(32), api="inplace", probe=kind)
        else:
            s.call("ss_open", mode=0, skr="$kR.sk", enc="$S.enc", info="-", ct="01", tag="-", aad="-", api="inplace", probe=kind)
        s.call("export", ctx="S", exctx="-", len=16, after=1)
        res = env.drive("abort-" + kind, cw.text(), build="panic-abort")
        if res.timed_out:
            env.inconclusive.append("panic=abort probe %s: watchdog" % kind)
            continue
        probe = [o for ss in res.sessions for o in (ss.all_ops or ss.ops) if o.args.get("probe") == kind]
        env.count("evaluations", 1)
        if not probe:
            env.inconclusive.append("panic=abort probe %s: the probe call was not reached" % kind)
            continue
        o = probe[0]
        if o.ret is not None:
            env.violation("C11:export_only_returned_under_panic_abort:%s" % kind,
                          "in a build with panic=abort, %s on an export-only context returned (%s) instead of ending the process" % (kind, o.outcome()),
                          case_text=res.sessions[0].case_text(o.id), workload="panic_abort")
        elif res.rc == 0:
            env.inconclusive.append("panic=abort probe %s: no return event but exit code 0" % kind)
        else:
            env.seen(("panic_abort", kind))
            env.count("panic_abort_process_deaths", 1)


def dense_lengths(env):
    """thorough: every L in 0..=16400 for one suite per KDF, and 65500..65600"""
    g = gen.G(env.rnd)
    cw = cl.CaseW()
    for kdf in gen.KDFS:
        s = cw.session(0x0020, kdf, 0xFFFF if kdf == 2 else 1, sid="d%d" % kdf)
        gen.add_pair(s, g, 0x0020, 0)
        for L in list(range(0, 16401)) + list(range(65500, 65601)):
            s.call("export", ctx="S" if L & 1 else "R", exctx="ab", len=L, hist=0)
    return cw


ZEROIZE_PROBE = """// generated by props/c11.py: the contexts implement zeroize::Zeroize - what does export give afterwards?
use hpke::{aead::ChaCha20Poly1305 as A, kdf::HkdfSha256 as K, kem::X25519HkdfSha256 as M, Kem, OpModeR, OpModeS};
use hpke::rand_core::{CryptoRng, RngCore};
use zeroize::Zeroize;
struct Z(u8);
impl RngCore for Z {
    fn next_u32(&mut self) -> u32 { self.0 = self.0.wrapping_mul(13).wrapping_add(7); self.0 as u32 }
    fn next_u64(&mut self) -> u64 { self.next_u32() as u64 }
    fn fill_bytes(&mut self, d: &mut [u8]) { for b in d.iter_mut() { *b = self.next_u32() as u8 } }
}
impl CryptoRng for Z {}
fn main() {
    println!("PROBE_STARTED");
    let (skr, pkr) = M::derive_keypair(b"0123456789abcdef0123456789abcdef");
    let (enc, mut s) = hpke::setup_sender::<A, K, M, _>(&OpModeS::Base, &pkr, b"info", &mut Z(3)).unwrap();
    let mut r = hpke::setup_receiver::<A, K, M>(&OpModeR::Base, &skr, &enc, b"info").unwrap();
    let (mut a, mut b, mut c, mut d) = ([0u8; 32], [0u8; 32], [0u8; 32], [0u8; 32]);
    s.export(b"ctx", &mut a).unwrap();
    r.export(b"ctx", &mut b).unwrap();
    @WIPE@
    let (rs, rr) = (s.export(b"ctx", &mut c), r.export(b"ctx", &mut d));
    println!("BEFORE {:02x?} {:02x?}", &a[..8], &b[..8]);
    println!("AFTER sender {:?} {} receiver {:?} {}", rs, if rs.is_ok() && c != a { "DIFFERS" } else { "same_or_error" }, rr, if rr.is_ok() && d != b { "DIFFERS" } else { "same_or_error" });
}
"""


def zeroize_probe(env):
    """Only if the compiled crate's surface says a context implements Zeroize (it does not at the pinned commit): export is
    'unaffected by what was done before and repeatable' - after a caller wiped the context it may refuse, it may not hand
    out a different (all-contexts-alike) value."""
    from lib import apisurface
    d, why = apisurface.rustdoc_json()
    if d is None:
        env.note("context surface not inspected: %s" % why)
        return
    facts = apisurface.surface(d)
    zs = any(f.startswith("impl Zeroize for AeadCtxS") for f in facts)
    zr = any(f.startswith("impl Zeroize for AeadCtxR") for f in facts)
    env.extra_cov["contexts_implement_zeroize"] = {"sender": zs, "receiver": zr}
    if not (zs or zr):
        return
    wipe = ("s.zeroize(); " if zs else "") + ("r.zeroize();" if zr else "")
    ok, out = apisurface.run_probe(env.work, "zeroize", ZEROIZE_PROBE.replace("@WIPE@", wipe), extra_deps='zeroize = { version = "1", default-features = false }\n')
    env.count("evaluations", 1)
    if not ok:
        env.note("a context implements Zeroize but the probe did not build or start: %s" % out[-300:])
        return
    if "DIFFERS" in out:
        line = [l for l in out.splitlines() if l.startswith("AFTER")][:1]
        env.violation("C11:export_changes_after_zeroize", "after Zeroize::zeroize on the context, export with the same arguments succeeds with a different value: %s" % (line[0][:300] if line else "?"), workload="export")
    else:
        env.seen("zeroize-probe")


def run(env):
    per, dense = env.pick((1, 0.15), (6, 0.5))
    cw = build(env, per, dense)
    res = env.drive("export", cw.text())
    env.require_complete(res, "export")
    mr = env.pmap(monitor, res.sessions, workload="export")
    res = env.drive("rejects", reject_run(env, env.pick(66000, 140000)).text())
    env.require_complete(res, "rejects")
    env.pmap(monitor, res.sessions, workload="export")
    panic_abort_probe(env)
    zeroize_probe(env)
    if not env.quick():
        res = env.drive("dense", dense_lengths(env).text())
        env.require_complete(res, "dense")
        env.pmap(monitor, res.sessions, workload="export")
        env.extra_cov["dense_lengths"] = "every L in 0..=16400 and 65500..=65600 for one suite per KDF"
        # an exporter context of 2^32+5 bytes
        from lib import giant

        def judge(env, sess, op, big):
            r = op.ret
            if "es" not in r:
                env.inconclusive.append("giant exporter context: no exporter-secret hook")
                return
            kem, kdf, aead = sess.ids
            suite_id = b"HPKE" + kem.to_bytes(2, "big") + kdf.to_bytes(2, "big") + aead.to_bytes(2, "big")
            want = cl.outenc(hkdf.labeled_expand(kdf, cl.unhex(r["es"]), suite_id, b"sec", bytes(big), 32))
            for side in ("s_exp", "r_exp"):
                if r.get(side) != want:
                    env.violation("C11:giant_exporter_context:%s" % side, "export under an exporter context of 2^32+5 bytes gives %s, LabeledExpand of the context's exporter secret gives %s" % (
                        r.get(side, "")[:40], want[:40]), case_text=sess.case_text(op.id), workload="giant-strings")
            if r.get("p_exp") == r.get("s_exp"):
                env.violation("C11:giant_exporter_context:ignored_byte", "changing byte %s of a 2^32+5-byte exporter context does not change the exported value" % op.args["flip"],
                              case_text=sess.case_text(op.id), workload="giant-strings")
        giant.run(env, "C11", ["exctx"], [(0x0020, 1, 1), (0x0010, 3, 0xFFFF)], judge)
    cells = {(d[0], d[1]) for d in env.distinct if isinstance(d[0], tuple)}
    env.extra_cov["suite_mode_cells"] = len(cells)
    if mr.counts["no_hook_value_unchecked"]:
        env.inconclusive.append("exporter-secret hook unavailable: export values were not checked against LabeledExpand")
    if len(cells) < 192 and not env.violations:
        raise fw.Inconclusive("only %d of 192 suite/mode cells exported" % len(cells))


def replay(env, path):
    import props.c11 as me
    fw.generic_replay(env, me, path)
