"""C12 - serialization is a fixed-size, canonical, lossless bijection (keys, encapsulated keys,
tags): RFC sizes, to_bytes/from_bytes round trips, identical re-serialization of accepted bytes,
IncorrectInputLength(expected, given) for every other length, write_exact panics exactly when the
buffer length differs."""
from lib import caselang as cl
from lib import framework as fw
from lib import gen
from ref import curves
from ref import hpke_ref as R

RULE = ("one case = one size/from_bytes/write_exact call; distinct = distinct (kem or aead, kind, operation, length relation, "
        "value source) combinations; every length 0..=2*size+2 is tried for every type")
ASSUMPTIONS = ["RFC 9180 table 2 sizes hard-coded in the monitor (Npk/Nsk/Nenc/Nsecret), Nt = 16 for sealing AEADs, 0 for export-only"]

SIZES = {0x0020: (32, 32, 32, 32), 0x0010: (65, 32, 65, 32), 0x0011: (97, 48, 97, 48), 0x0012: (133, 66, 133, 64)}


def build(env, reps):
    g = gen.G(env.rnd)
    rnd = env.rnd
    cw = cl.CaseW()
    for kem in gen.KEMS:
        npk, nsk, nenc, _ = SIZES[kem]
        for aead in gen.ALL_AEADS:
            kdf = gen.KDFS[(kem + aead) % 3]
            s = cw.session(kem, kdf, aead, sid="s%04x_%04x" % (kem, aead))
            s.call("sizes")
            nt = 0 if aead == 0xFFFF else 16
            # values produced by the library itself
            for j in range(reps):
                s.call("derive_keypair", ikm=g.rbytes(rnd.choice([0, nsk, 100])), out="k%d" % j)
                s.call("gen_keypair", rng=g.rbytes(nsk), out="g%d" % j)
                s.call("encap", pkr="$k%d.pk" % j, rng=g.rbytes(nsk), out="e%d" % j)
                for kind, reg in (("pk", "$k%d.pk" % j), ("sk", "$k%d.sk" % j), ("pk", "$g%d.pk" % j), ("sk", "$g%d.sk" % j), ("enc", "$e%d.enc" % j)):
                    s.call("from_bytes", kind=kind, bytes=reg, src="library")
                    size = {"pk": npk, "sk": nsk, "enc": nenc}[kind]
                    if j == 0:
                        for L in range(0, 2 * size + 3):
                            s.call("write_exact", kind=kind, bytes=reg, buflen=L)
                    else:
                        s.call("write_exact", kind=kind, bytes=reg, buflen=rnd.choice([size, size, size - 1, size + 1, 0]))
            if nt:
                gen.add_pair(s, g, kem, 0, new_keys=True)
                for j in range(reps):
                    s.call("seal", ctx="S", api="inplace", pt=g.rbytes(rnd.choice([0, 7, 64])), aad="-", out="m%d" % j)
                    s.call("from_bytes", kind="tag", bytes="$m%d.tag" % j, src="library")
                    if j == 0:
                        for L in range(0, 2 * nt + 3):
                            s.call("write_exact", kind="tag", bytes="$m0.tag", buflen=L)
            else:
                s.call("from_bytes", kind="tag", bytes="-", src="arbitrary")
                for L in range(0, 4):
                    s.call("write_exact", kind="tag", bytes="-", buflen=L)
            # arbitrary byte strings and every wrong length
            for kind, size in (("pk", npk), ("sk", nsk), ("enc", nenc), ("tag", nt)):
                for L in range(0, 2 * size + 3):
                    if L != size:
                        s.call("from_bytes", kind=kind, bytes=g.rbytes(L), src="wrong_length")
                s.call("from_bytes", kind=kind, bytes="@z:00:%d" % (size * 50 + 7), src="wrong_length")
                for alias in (256, 65536, 131072):
                    # lengths equal to the right one modulo 2^8 / 2^16 (a narrowed length comparison would accept them)
                    s.call("from_bytes", kind=kind, bytes=g.rbytes(size + alias), src="wrong_length")
                if kem == 0x0020 or kind == "tag":
                    for _ in range(reps * 4):
                        s.call("from_bytes", kind=kind, bytes=g.rbytes(size), src="arbitrary")
                    if size:
                        for pat in ("00", "ff", "80"):
                            s.call("from_bytes", kind=kind, bytes="@z:%s:%d" % (pat, size), src="arbitrary")
                        if kem == 0x0020 and kind != "tag":
                            for e in curves.X25519_SMALL_ORDER + [(9).to_bytes(32, "little"), (9).to_bytes(31, "little") + b"\x80"]:
                                s.call("from_bytes", kind=kind, bytes=e, src="arbitrary")
                            # every non-canonical u-coordinate p .. 2^255-1, with and without bit 255
                            P = 2**255 - 19
                            for u in list(range(P, 2**255)) + [P - 1, P - 2, 2**255 - 20]:
                                b = u.to_bytes(32, "little")
                                s.call("from_bytes", kind=kind, bytes=b, src="arbitrary")
                                s.call("from_bytes", kind=kind, bytes=b[:31] + bytes([b[31] | 0x80]), src="arbitrary")
                else:
                    # NIST: accepted byte strings built by the reference
                    c = R.KEMS[kem].curve
                    # arbitrary right-length strings: most are rejected (fine), whatever is accepted must re-serialize identically
                    for _ in range(reps * 6):
                        b = g.raw(size)
                        if kind != "sk":
                            b = b"\x04" + b[1:]
                        elif rnd.random() < 0.5:
                            b = bytes([b[0] & 0x01]) + b[1:] if kem == 0x0012 else b
                        s.call("from_bytes", kind=kind, bytes=b, src="arbitrary_maybe")
                    if kind in ("pk", "enc"):
                        for _ in range(reps):
                            x, y = c.mul_base(rnd.randrange(1, c.n))
                            xb = x.to_bytes(c.nbytes, "big")
                            for tag in (2 + (y & 1), 3 - (y & 1), 5, 4):
                                s.call("from_bytes", kind=kind, bytes=bytes([tag]) + xb, src="wrong_length_sec1_compressed")
                    ds = [rnd.randrange(1, c.n) for _ in range(reps)]
                    if kind == "sk":
                        # scalars with leading zero bytes
                        ds += [1, 255, 1 << 64, rnd.randrange(1, 1 << (8 * (c.nbytes - 2))), rnd.randrange(1, 1 << (8 * (c.nbytes - 1)))]
                    for d in ds:
                        b = c.encode_private(d) if kind == "sk" else c.encode_public(c.mul_base(d))
                        s.call("from_bytes", kind=kind, bytes=b, src="reference_key")
                        s.call("write_exact", kind=kind, bytes=b, buflen=size)
    return cw


def monitor(sess, extra):
    r = fw.MonResult()
    kem, kdf, aead = sess.ids
    npk, nsk, nenc, nsec = SIZES[kem]
    nt = 0 if aead == 0xFFFF else 16
    size_of = {"pk": npk, "sk": nsk, "enc": nenc, "tag": nt}
    for op in sess.ops:
        if op.ret is None:
            r.violation("C12:noreturn:%s" % op.op, "%s never returned" % op.id, sess, op)
            break
        if op.op == "sizes":
            r.counts["evaluations"] += 1
            got = tuple(int(op.ret[k]) for k in ("npk", "nsk", "nenc", "nsecret", "nt"))
            want = (npk, nsk, nenc, nsec, nt)
            if got != want:
                r.violation("C12:sizes", "size() reports (Npk,Nsk,Nenc,Nsecret,Nt) = %s, RFC 9180 says %s" % (got, want), sess, op)
            else:
                r.distinct.add((kem, aead, "sizes"))
        elif op.op in ("derive_keypair", "gen_keypair", "encap", "seal"):
            if not op.ok():
                continue
            r.counts["evaluations"] += 1
            for f, n in (("sk", nsk), ("pk", npk), ("enc", nenc), ("tag", nt)):
                if f in op.ret and op.op != "seal" or (f == "tag" and op.op == "seal" and f in op.ret):
                    if len(op.out(f)) != n:
                        r.violation("C12:to_bytes_len:%s" % f, "to_bytes() of %s has %d bytes, RFC size %d" % (f, len(op.out(f)), n), sess, op)
        elif op.op == "from_bytes":
            kind = op.args["kind"]
            data = op.b["bytes"]
            size = size_of[kind]
            src = op.args.get("src", "?")
            r.counts["evaluations"] += 1
            if len(data) != size:
                want = "err=IncorrectInputLength:%d:%d" % (size, len(data))
                if op.outcome() != want:
                    r.violation("C12:wrong_length:%s" % kind, "%s::from_bytes of %d bytes: got %s, expected %s" % (kind, len(data), op.outcome(), want), sess, op)
                    continue
                r.distinct.add((kem, aead, kind, "from_bytes", "short" if len(data) < size else "long", src if src != "wrong_length" else ""))
            else:
                must_accept = src in ("library", "reference_key") or kem == 0x0020 or kind == "tag"
                if not op.ok():
                    if must_accept:
                        r.violation("C12:rejected:%s:%s" % (kind, src), "%s::from_bytes rejected a %s value of the right length: %s" % (kind, src, op.outcome()), sess, op)
                    continue
                re_ = op.out("re")
                same = re_ == data
                if not same and kem == 0x0020 and kind == "sk":
                    same = curves.clamp(re_) == curves.clamp(data)
                if not same:
                    r.violation("C12:reserialize:%s" % kind, "%s re-serializes to %s, input was %s" % (kind, re_.hex()[:80], data.hex()[:80]), sess, op)
                    continue
                if op.ret.get("eq") != "1":
                    r.violation("C12:roundtrip_eq:%s" % kind, "from_bytes(to_bytes(v)) != v for %s" % kind, sess, op)
                    continue
                r.distinct.add((kem, aead, kind, "from_bytes", "exact", src))
        elif op.op == "write_exact":
            kind = op.args["kind"]
            size = size_of[kind]
            L = int(op.args["buflen"])
            r.counts["evaluations"] += 1
            if op.err() and "@bytes" in op.err():
                continue
            if L == size:
                if not op.ok():
                    r.violation("C12:write_exact_exact:%s" % kind, "write_exact into a buffer of exactly size() = %d bytes: %s" % (size, op.outcome()), sess, op)
                    continue
                want = op.b["bytes"]
                got = op.out("buf")
                if got != want and not (kem == 0x0020 and kind == "sk" and curves.clamp(got) == curves.clamp(want)):
                    r.violation("C12:write_exact_value:%s" % kind, "write_exact wrote %s, value is %s" % (got.hex()[:80], want.hex()[:80]), sess, op)
                    continue
            else:
                if op.panic() is None:
                    r.violation("C12:write_exact_no_panic:%s" % kind, "write_exact into %d bytes (size %d) did not panic: %s" % (L, size, op.outcome()), sess, op)
                    continue
            r.distinct.add((kem, aead, kind, "write_exact", "exact" if L == size else "short" if L < size else "long"))
    if sess.ops and not r.samples:
        o = [x for x in sess.ops if x.op == "from_bytes"][5]
        r.samples.append({"session": sess.header, "call": o.raw[:200], "result": o.outcome()})
    return r


MONITORS = {"serialize": monitor}


def run(env):
    cw = build(env, env.pick(4, 60))
    res = env.drive("serialize", cw.text())
    env.require_complete(res, "serialize")
    env.pmap(monitor, res.sessions, workload="serialize")
    env.extra_cov["sessions"] = len(res.sessions)


def replay(env, path):
    import props.c12 as me
    fw.generic_replay(env, me, path)
