"""C13 - no panic, overflow or abort on attacker-controlled input (sealing suites); setup_sender
fails only with EncapError and setup_receiver only with DecapError.

One hostile, structure-aware workload is replayed under several builds of the same driver:
  checked  (optimized, overflow checks + debug assertions trap)      every tier
  fast     (what a user ships: no overflow checks)                     every tier
  asan     (AddressSanitizer, nightly)                                every tier (smaller slice in quick)
  memcheck (valgrind on the fast build)                               thorough, slice
  miri     (undefined-behaviour interpreter, portable back ends)      thorough, small X25519/P-256 slice
The driver wraps every call in catch_unwind and writes the call event before invoking, so a panic
shows up as a `panic=` result and an abort as a call without a return."""
import os
import re
import subprocess

from lib import caselang as cl
from lib import framework as fw
from lib import gen
from ref import curves
from ref import hpke_ref as R

RULE = ("one case = one call of a byte-consuming public entry point with hostile input under one build; a case is "
        "non-trivial when the input is malformed or of boundary length; distinct = distinct (entry point, input class, "
        "kem, aead, build) combinations")
ASSUMPTIONS = ["sanitizers only see what the workload reaches; the coverage census of the thorough tier lists unreached regions of /repo/src",
               "documented panics (write_exact with a wrong buffer length, seal/open on export-only contexts) are not part of this property and not in the workload"]

BIG = [65536, 65537]


def hostile_lengths(size):
    # every length up to 2*size+2, and lengths that alias the right one modulo 2^8 / 2^16
    return sorted(set(list(range(0, min(2 * size + 3, 300))) + [size, 2 * size + 2, 65536, size + 256, size + 65536, size + 131072]))


def build(env, sessions_per_cell, huge):
    g = gen.G(env.rnd)
    rnd = env.rnd
    cw = cl.CaseW()
    cells = [(ids, m) for ids in gen.suites() for m in gen.MODES]
    rnd.shuffle(cells)
    for ci, ((kem, kdf, aead), mode) in enumerate(cells):
        for j in range(sessions_per_cell):
            s = cw.session(kem, kdf, aead, sid="f%d_%d" % (ci, j))
            npk, nsk = gen.npk(kem), gen.nsk(kem)
            big = rnd.choice(BIG + ([huge] if huge else []))
            m = gen.add_pair(s, g, kem, mode, info=g.rbytes(rnd.choice([0, 1, 64, big])),
                             psk=g.rbytes(rnd.choice([1, 32, 4096, big])) if mode in (1, 3) else None,
                             pskid=g.rbytes(rnd.choice([1, 255, 4097, big])) if mode in (1, 3) else None)
            # --- rendering of every error variant (Display and Debug), with payloads in both orders and at the extremes
            if j == 0:
                s.call("errfmt", cls="error_formatting")
            # --- deserializers
            kinds = [("pk", npk), ("sk", nsk), ("enc", npk), ("tag", 16)]
            kind, size = kinds[(ci + j) % 4]
            for L in hostile_lengths(size) if j == 0 else rnd.sample(hostile_lengths(size), 12):
                s.call("from_bytes", kind=kind, bytes=rnd.choice([g.rbytes(L), "@z:00:%d" % L, "@z:ff:%d" % L]), cls="len")
            for kind2, size2 in kinds[:3]:
                valid = "$kR.pk" if kind2 != "sk" else "$kR.sk"
                s.call("from_bytes", kind=kind2, bytes=valid, cls="valid")
                s.call("from_bytes", kind=kind2, bytes=valid + "^app:" + g.raw(rnd.choice([1, 7, 33])).hex(), cls="valid_prefix_garbage")
                s.call("from_bytes", kind=kind2, bytes=valid + "^trunc:%d" % rnd.randrange(0, size2), cls="valid_truncated")
                s.call("from_bytes", kind=kind2, bytes=valid + "^flip:%d" % rnd.randrange(0, 8 * size2), cls="valid_bitflip")
                s.call("from_bytes", kind=kind2, bytes="@z:ff:%d" % size2, cls="all_ff")
                s.call("from_bytes", kind=kind2, bytes="@z:00:%d" % size2, cls="all_00")
            # --- opening with hostile ciphertexts
            s.call("seal", ctx="S", api="alloc", pt=g.rbytes(rnd.choice([0, 1, 15, 16, 17, 64])), aad="aa", out="m")
            lens = list(range(0, 19)) + [31, 32, 33, 47, 48, 63, 64, 65, 255, 256, 257, 65537] + ([huge] if huge else [])
            for L in (lens if j == 0 else rnd.sample(lens, 10)):
                s.call("open", ctx="R", api="alloc", ct=g.rbytes(L), aad=g.rbytes(rnd.choice([0, 1, 16])), cls="garbage_len")
                if L <= 257:
                    s.call("open", ctx="R", api="inplace", ct=g.rbytes(L), tag=g.rbytes(rnd.choice([16, 16, 16, 0, 1, 15, 17, 32])), aad="-", cls="garbage_len")
            for k in range(0, 17):
                s.call("open", ctx="R", api="alloc", ct="$m.full^trunc:%d" % k, aad="aa", cls="truncated")
            s.call("open", ctx="R", api="alloc", ct="$m.full^app:" + "00" * rnd.choice([1, 16, 17]), aad="aa", cls="extended")
            s.call("open", ctx="R", api="alloc", ct="$m.full", aad=g.rbytes(big), cls="huge_aad")
            s.call("open", ctx="R", api="inplace", ct="$m.ct", tag="$m.tag^trunc:%d" % rnd.randrange(0, 16), aad="aa", cls="short_tag")
            s.call("open", ctx="R", api="alloc", ct="$m.full", aad="aa", cls="honest")
            s.call("seal", ctx="S", api=rnd.choice(["alloc", "inplace"]), pt=g.rbytes(big), aad=g.rbytes(rnd.choice([0, big])), cls="huge")
            # --- receiver setup with hostile material
            rargs = dict(m["rargs"])
            base = dict(mode=mode, skr="$kR.sk", info="-")
            # keys that are valid but stand in an unusual RELATION to the other arguments
            related = ["$kR.pk", "$S.enc"] + (["$kS.pk"] if mode in (2, 3) else [])
            for e in related:
                s.call("setup_r", enc=e, out="X", cls="related_enc", **dict(mode=mode, skr="$kR.sk", info="-"), **dict(m["rargs"]))
                s.call("ss_open", enc=e, ct=g.rbytes(20), aad="-", api="alloc", cls="related_enc", **dict(mode=mode, skr="$kR.sk", info="-"), **dict(m["rargs"]))
            if mode in (2, 3):
                ra2 = dict(m["rargs"])
                ra2["pks"] = "$kR.pk"
                s.call("setup_r", enc="$S.enc", out="X", cls="related_pkS", **dict(mode=mode, skr="$kR.sk", info="-"), **ra2)
            hostile_enc = [g.rbytes(npk), "@z:00:%d" % npk, "@z:ff:%d" % npk, "$S.enc^flip:%d" % rnd.randrange(8 * npk),
                           "$S.enc^trunc:%d" % rnd.randrange(npk), "$S.enc^app:00", "-", g.rbytes(rnd.choice([1, npk - 1, npk + 1, 65536]))]
            if kem == 0x0020:
                hostile_enc += [e.hex() for e in rnd.sample(curves.X25519_SMALL_ORDER, 4)]
            else:
                c = R.KEMS[kem].curve
                x = rnd.randrange(c.p)
                hostile_enc += [(b"\x04" + x.to_bytes(c.nbytes, "big") + rnd.randrange(c.p).to_bytes(c.nbytes, "big")).hex(),
                                (b"\x02" + x.to_bytes(c.nbytes, "big")).hex(), "04" + "00" * (2 * c.nbytes)]
            for e in hostile_enc:
                s.call("setup_r", enc=e, out="X", cls="hostile_enc", **base, **rargs)
                s.call("ss_open", enc=e, ct=g.rbytes(rnd.choice([0, 5, 16, 40])), aad="-", api="alloc", cls="hostile_enc", **base, **rargs)
            s.call("setup_r", enc="$S.enc", out="X", cls="hostile_info", **dict(base, info=g.rbytes(big)), **rargs)
            if mode in (2, 3):
                for pk in hostile_enc[:6]:
                    ra = dict(rargs)
                    ra["pks"] = pk
                    s.call("setup_r", enc="$S.enc", out="X", cls="hostile_pkS", **base, **ra)
            if mode in (1, 3):
                for (a, b) in (("-", "-"), ("00", "-"), ("-", "00"), (g.rbytes(big), g.rbytes(1)), (g.rbytes(1), g.rbytes(big))):
                    s.call("psk_bundle", psk=a, pskid=b, cls="bundle")
                    ra = dict(rargs, psk=a, pskid=b)
                    s.call("setup_r", enc="$S.enc", out="X", cls="hostile_psk", **base, **ra)
            # --- sender setup towards hostile recipient keys
            sargs = dict(m["sargs"])
            for pk in hostile_enc[:6] + hostile_enc[-3:]:
                s.call("setup_s", mode=mode, pkr=pk, info=g.rbytes(rnd.choice([0, 9])), rng=g.rbytes(nsk), out="Y", cls="hostile_pkR", **sargs)
            s.call("ss_seal", mode=mode, pkr=hostile_enc[-1], info="-", pt="00", aad="-", rng=g.rbytes(nsk), api="inplace", cls="hostile_pkR", **sargs)
            if mode in (2, 3):
                # an identity key pair whose halves do not belong together is legal input: setup may only fail with EncapError
                sa2 = dict(sargs)
                sa2["pks"] = "$kR.pk"
                s.call("setup_s", mode=mode, pkr="$kR.pk", info="-", rng=g.rbytes(nsk), out="Y", cls="mismatched_identity_pair", **sa2)
                s.call("ss_seal", mode=mode, pkr="$kR.pk", info="-", pt="00", aad="-", rng=g.rbytes(nsk), api="inplace", cls="mismatched_identity_pair", **sa2)
            # --- export with hostile contexts and lengths
            nh = {1: 32, 2: 48, 3: 64}[kdf]
            for L in (0, 1, 255 * nh, 255 * nh + 1, 65535, 65536, 65537, 1 << 20):
                s.call("export", ctx=rnd.choice("SR"), exctx=g.rbytes(rnd.choice([0, 1, big])), len=L, cls="export")
            s.call("derive_keypair", ikm=g.rbytes(rnd.choice([0, big])), cls="ikm")
    # length sweeps on one context per KDF: every exporter-context length, every 3rd aad / info length
    for i, kdf in enumerate(gen.KDFS):
        s = cw.session(0x0020, kdf, gen.SEAL_AEADS[i], sid="sweep%d" % kdf)
        gen.add_pair(s, g, 0x0020, 0)
        for L in range(0, 2300):
            s.call("export", ctx="S", exctx="@z:61:%d" % L, len=8, cls="sweep_exctx")
        for L in range(0, 2300, 3):
            s.call("seal", ctx="S", api="inplace", pt="00", aad="@z:62:%d" % L, cls="sweep_aad")
            s.call("setup_r", mode=0, skr="$kR.sk", enc="$S.enc", info="@z:63:%d" % L, out="X", cls="sweep_info")
    # primitives plugged in through the crate's public traits with sizes the built-in ones do not have (mock AEADs with
    # nonces of 8..24 bytes, tags of 16..32 bytes, a 64-byte key, tag-first attached forms; a mock KEM with 96-byte sizes):
    # the generic code around them must not assume the built-in sizes
    for i, (kem, aead) in enumerate([(gen.KEMS[j % 4], a) for j, a in enumerate((0x7777, 0x7778, 0x7779, 0x777A, 0x777B, 0x777C))] + [(0x7E57, 1), (0x7E57, 3), (0x7E57, 0x777B)]):
        for mode in gen.MODES:
            s = cw.session(kem, (1, 3)[(i + mode) % 2], aead, sid="mock%d_%d" % (i, mode))
            gen.add_pair(s, g, kem, mode, info=g.rbytes(9))
            for api in ("alloc", "inplace"):
                s.call("seal", ctx="S", api=api, pt=g.rbytes(rnd.choice([0, 1, 40])), aad=g.rbytes(3), out="m", cls="mock_primitives")
                s.call("open", ctx="R", api=api, aad="-", cls="mock_primitives", **({"ct": "$m.full"} if api == "alloc" else {"ct": "$m.ct", "tag": "$m.tag"}))
            s.call("open", ctx="R", api="alloc", ct=g.rbytes(rnd.choice([0, 7, 31, 33])), aad="-", cls="mock_primitives")
            s.call("export", ctx="R", exctx="-", len=64, cls="mock_primitives")
    return cw


ENTRY = {"from_bytes": "from_bytes", "open": "open", "seal": "seal", "setup_r": "setup_receiver", "setup_s": "setup_sender",
         "ss_open": "single_shot_open", "ss_seal": "single_shot_seal", "export": "export", "psk_bundle": "PskBundle::new",
         "derive_keypair": "derive_keypair"}


def monitor(sess, extra):
    r = fw.MonResult()
    build = extra or "checked"
    for op in sess.ops:
        cls = op.args.get("cls")
        r.counts["evaluations"] += 1
        if op.ret is None:
            r.violation("C13:abort:%s" % ENTRY.get(op.op, op.op), "the process died inside %s (%s build); no return event" % (op.op, build), sess, op)
            break
        if op.panic() is not None:
            where = op.panic().split("@")[-1]
            r.violation("C13:panic:%s:%s" % (ENTRY.get(op.op, op.op), re.sub(r":\d+$", "", where)),
                        "%s panicked on attacker-controlled input (%s build, class %s): %s" % (ENTRY.get(op.op, op.op), build, cls, op.panic().replace("_", " ")), sess, op)
            continue
        e = op.err()
        if op.op in ("setup_s", "ss_seal") and e and "@" not in e and e not in ("EncapError",):
            r.violation("C13:setup_sender_error:%s" % e, "sender setup failed with %s (only EncapError is allowed)" % e, sess, op)
            continue
        if op.op == "setup_r" and e and "@" not in e and e != "DecapError":
            r.violation("C13:setup_receiver_error:%s" % e, "receiver setup failed with %s (only DecapError is allowed)" % e, sess, op)
            continue
        if cls:
            r.distinct.add((ENTRY.get(op.op, op.op), cls, sess.ids[0], sess.ids[2], build))
            r.counts["outcome:%s" % ("ok" if op.ok() else "err")] += 1
    if sess.ops and not r.samples and build == "checked":
        o = [x for x in sess.ops if x.args.get("cls") == "hostile_enc"][:1]
        if o:
            r.samples.append({"session": sess.header, "call": o[0].raw[:200], "result": o[0].outcome()})
    return r


MONITORS = {"hostile": monitor}
REPLAY_EXTRA = "checked"


def sanitizer_reports(text):
    return len(re.findall(r"ERROR: AddressSanitizer|ERROR: LeakSanitizer|runtime error:", text))


def run_under(env, name, text, build, wrapper=None, extra_env=None, timeout=None, sched="seq"):
    res = env.drive(name, text, build=build, wrapper=wrapper, extra_env=extra_env, timeout=timeout, sched=sched)
    if res.timed_out:
        raise fw.Inconclusive("%s: watchdog fired" % name)
    probs = list(res.problems)
    for s in res.sessions:
        probs += s.problems
    if probs:
        raise fw.Inconclusive("%s: harness problems: %s" % (name, "; ".join(probs[:4])))
    bname = build if isinstance(build, str) else build.name
    env.pmap(monitor, res.sessions, extra=bname + ("+" + name if wrapper else ""), workload="hostile")
    env.extra_cov.setdefault("runs", []).append({"build": bname, "workload": name, "sessions": len(res.sessions),
                                                  "ops": sum(len(s.ops) for s in res.sessions), "exit": res.rc, "wall_s": round(res.wall, 1)})
    return res


def slice_text(text, k, n):
    """every n-th session starting at k"""
    out = []
    keep = False
    i = -1
    for line in text.splitlines():
        if line.startswith("S "):
            i += 1
            keep = (i % n) == k
        if keep:
            out.append(line)
    return "\n".join(out) + "\n"


def run(env):
    per, huge = env.pick((1, 0), (4, 1 << 20))
    text = build(env, per, huge).text()
    run_under(env, "hostile", text, "checked")
    run_under(env, "hostile", text, "fast")
    # the same on threads with a 64 KiB stack (the unchanged library needs < 32 KiB for this workload): a call that
    # puts a message-sized buffer on the stack kills a small-stack thread on any input, hostile or not
    rs = run_under(env, "hostile-stack64", text, "checked", sched="stack:64")
    env.extra_cov["small_stack_run"] = {"stack_kib": 64, "exit": rs.rc, "stack_overflow_reported": "overflowed its stack" in (rs.stderr or "")}
    # AddressSanitizer: a report makes the process exit non-zero; the cut-off event log says where
    asan_text = slice_text(text, env.seed % 4, 4) if env.quick() else text
    res = run_under(env, "hostile-asan", asan_text, "asan", extra_env={"ASAN_OPTIONS": "detect_leaks=1:halt_on_error=1:abort_on_error=0"})
    nrep = sanitizer_reports(res.stderr)
    env.extra_cov["asan_reports"] = nrep
    if nrep or (res.rc not in (0, None)):
        env.violation("C13:asan", "AddressSanitizer run exited %s with %d report(s):\n%s" % (res.rc, nrep, res.stderr[-1500:]), workload="hostile")
    if not env.quick():
        thorough_extras(env, text)
    env.extra_cov["sessions"] = text.count("\nS ") + 1


def thorough_extras(env, text):
    # valgrind memcheck on the fast build: definedness is the one thing ASan lacks
    mc = slice_text(text, env.seed % 40, 40)
    log = os.path.join(env.work, "memcheck.log")
    res = run_under(env, "hostile-memcheck", mc, "fast",
                    wrapper=["valgrind", "--tool=memcheck", "--error-exitcode=99", "--log-file=" + log, "-q"], timeout=7200)
    try:
        vg = open(log).read()
    except OSError:
        vg = ""
    nerr = len(re.findall(r"^==\d+== (Invalid|Conditional jump|Use of uninit|Syscall param)", vg, re.M))
    env.extra_cov["memcheck_errors"] = nerr
    if res.rc == 99 or nerr:
        env.violation("C13:memcheck", "valgrind memcheck reported %d error(s):\n%s" % (nerr, vg[-1500:]), workload="hostile")
    miri_slice(env, text)
    giant_inputs(env)
    census(env, text)


def giant_inputs(env):
    """Inputs of 2^32+5 bytes on the build with debug assertions and overflow checks on: a message through seal and
    both opening forms, and info / psk / exporter context / ikm strings.  Only 'returns without panicking' is judged."""
    from lib import giant
    g = gen.G(env.rnd)
    cw = cl.CaseW()
    n = giant.N
    s = cw.session(0x0020, 1, 3, sid="GM")
    gen.add_pair(s, g, 0x0020, 0)
    s.call("giant", cs="S", cr="R", len=n, aad="6161", api="inplace", cls="giant_message")
    s.call("giant", cs="S", cr="R", len=n, aad="-", api="alloc", cls="giant_message")
    giant.build(cw, g, gen, ["info", "psk", "exctx", "ikm"], [(0x0020, 1, 1)], n)
    res = env.drive("giant", cw.text(), build="checked", timeout=14400)
    if res.timed_out:
        env.note("giant inputs: watchdog (inconclusive for this sub-run only)")
        return
    judged = 0
    for ss in res.sessions:
        for o in (ss.all_ops or ss.ops):
            if o.op not in ("giant", "giant_str"):
                continue
            judged += 1
            env.count("evaluations", 1)
            if o.ret is None:
                env.violation("C13:abort:%s" % o.op, "%s with 2^32+5 bytes never returned (process exit %s)" % (o.raw[:120], res.rc), case_text=ss.case_text(o.id), workload="hostile")
            elif o.panic():
                env.violation("C13:panic:%s:%s" % (o.op, o.args.get("which", "message")), "2^32+5 bytes of %s: panic %s" % (o.args.get("which", "message"), o.panic()[:200]),
                              case_text=ss.case_text(o.id), workload="hostile")
    env.extra_cov["giant_inputs_on_checked_build"] = {"bytes": n, "calls": judged}


def miri_slice(env, text):
    """A handful of X25519 / P-256 sessions under Miri (portable AES/GHASH/Poly1305 back ends)."""
    sessions = text.split("\nS ")
    picked = []
    for sx in sessions:
        head = sx.splitlines()[0]
        if ("kem=0020" in head and len(picked) < 3):
            picked.append(("S " + sx) if not sx.startswith("S ") else sx)
    if not picked:
        return
    # keep it small: Miri is ~4 orders of magnitude slower; drop the huge inputs
    small = []
    for p in picked:
        lines = [l for l in p.splitlines() if "65536" not in l and "65537" not in l and "1048576" not in l and ":65" not in l]
        small.append("\n".join(lines[:120]))
    case = os.path.join(env.work, "miri.case")
    ev = os.path.join(env.work, "miri.ev")
    open(case, "w").write("\n".join(small) + "\n")
    fw.prepare_crate(os.path.join(fw.VERIF, "harness"))
    e = dict(fw.BASE_ENV)
    e["RUSTFLAGS"] = "--cfg hpke_verif"
    e["MIRIFLAGS"] = "-Zmiri-disable-isolation"
    cmd = ["cargo", "+nightly", "miri", "run", "--offline", "--target-dir", os.path.join(fw.VERIF, "target", "miri"), "--", "run", case, ev]
    try:
        p = subprocess.run(cmd, cwd=os.path.join(fw.VERIF, "harness"), env=e, stdout=subprocess.PIPE, stderr=subprocess.PIPE, timeout=5400)
    except subprocess.TimeoutExpired:
        env.note("miri slice: watchdog fired (inconclusive for this sub-run only)")
        env.extra_cov["miri"] = "watchdog"
        return
    err = p.stderr.decode("utf-8", "replace")
    if "Undefined Behavior" in err:
        env.violation("C13:miri", "Miri reported undefined behaviour:\n%s" % err[-2000:], workload="hostile")
    elif p.returncode != 0:
        env.note("miri slice did not run to completion (rc %s): %s" % (p.returncode, err[-300:]))
        env.extra_cov["miri"] = "failed to run (rc %s)" % p.returncode
        return
    sessions, problems = cl.parse_events(ev)
    env.pmap(monitor, sessions, extra="miri", workload="hostile", procs=1)
    env.extra_cov["miri"] = {"sessions": len(sessions), "ops": sum(len(s.ops) for s in sessions)}


def census(env, text):
    """Which regions of /repo/src did no workload of this run execute?  Stated, not hidden."""
    try:
        b = fw.Build("cov", toolchain="nightly", rustflags="-Cinstrument-coverage")
        path = env.build(b)
        prof = os.path.join(env.work, "cov.profraw")
        env.drive("census", slice_text(text, 0, 6), build=b, extra_env={"LLVM_PROFILE_FILE": prof}, parse=False)
        sysroot = subprocess.run(["rustc", "+nightly", "--print", "sysroot"], stdout=subprocess.PIPE, text=True).stdout.strip()
        tools = os.path.join(sysroot, "lib", "rustlib", "x86_64-unknown-linux-gnu", "bin")
        pd = os.path.join(env.work, "cov.profdata")
        subprocess.run([os.path.join(tools, "llvm-profdata"), "merge", "-sparse", prof, "-o", pd], check=True)
        rep = subprocess.run([os.path.join(tools, "llvm-cov"), "report", path, "-instr-profile=" + pd, "--sources"] +
                             [os.path.join(fw.REPO, "src")], stdout=subprocess.PIPE, text=True).stdout
        rows = [l for l in rep.splitlines() if l.strip().startswith(("aead", "dhkex", "kdf", "kem", "op_mode", "setup", "single_shot", "util", "TOTAL", "lib"))]
        env.extra_cov["coverage_census"] = rows[:20]
    except Exception as e:  # census is informational only
        env.note("coverage census unavailable: %r" % (e,))


def replay(env, path):
    import props.c13 as me
    fw.generic_replay(env, me, path)
