"""C03 - DHKEM conformance: DeriveKeyPair, GenerateKeyPair, Encap/Decap and the Auth variants
against the independent reference (RFC 9180 sections 4.1 and 7.1.3)."""
from lib import caselang as cl
from lib import framework as fw
from lib import gen
from lib import refinterp
from ref import hpke_ref as R

from .c02 import RARE_P256

RULE = ("one case = one KEM-level call (derive_keypair / gen_keypair / sk_to_pk / encap / decap, plain and "
        "authenticated) compared byte-for-byte with the reference; distinct = distinct (kem, operation, "
        "auth?, ikm-length class or key-source class) cells; retry-path derivations are counted separately")
ASSUMPTIONS = ["reference anchored on RFC 9180 A.1.1/A.3.1 DeriveKeyPair/Encap values, RFC 5903 ECDH vectors, libcrypto cross-check",
               "the P-384/P-521 DeriveKeyPair retry path is unreachable with the KEM's own hash (p < 2^-190): it is driven through the hpke_verif hook verif_derive_keypair_with and a steerable hash, i.e. with a KDF other than the KEM's"]


def ikm_lengths(kem):
    n = gen.nsk(kem)
    return [0, 1, n - 1, n, n + 1, 64, 65, 255, 1024, 65536]


def build(env, reps):
    g = gen.G(env.rnd)
    cw = cl.CaseW()
    for kem in gen.KEMS:
        kdf = R.KEMS[kem].kdf_id
        n = gen.nsk(kem)
        # --- key derivation
        s = cw.session(kem, kdf, 1, sid="dk%04x" % kem)
        s.call("sizes")
        for L in ikm_lengths(kem):
            for _ in range(reps):
                s.call("derive_keypair", ikm=g.rbytes(L), cls="len%d" % L)
        for pat in ("00", "ff", "80", "01"):
            for L in (n, 2 * n):
                s.call("derive_keypair", ikm="@z:%s:%d" % (pat, L), cls="const")
        for _ in range(reps * 6):
            s.call("derive_keypair", ikm=g.rbytes(env.rnd.randrange(0, 200)), cls="rand")
        if kem == 0x0010:
            for h in RARE_P256:
                s.call("derive_keypair", ikm=h, cls="rare")
                s.call("gen_keypair", rng=h + "aa" * 8, cls="rare")
        for _ in range(reps * 4):
            s.call("gen_keypair", rng=g.raw(n).hex() + "aa" * 8, cls="rand")
        s.call("gen_keypair", rng="00" * n + "aa" * 8, cls="const")
        s.call("gen_keypair", rng="ff" * n + "aa" * 8, cls="const")
        # --- encap/decap, plain and auth, impl both sides
        for j in range(reps * 6):
            s = cw.session(kem, kdf, 1, sid="ed%04x_%d" % (kem, j))
            gen.add_keys(s, g, kem, "kR")
            gen.add_keys(s, g, kem, "kS")
            gen.add_keys(s, g, kem, "kX")
            s.call("sk_to_pk", sk="$kR.sk")
            rng = g.raw(n).hex() + "aa" * 8
            s.call("encap", pkr="$kR.pk", rng=rng, out="e", cls="plain")
            s.call("decap", skr="$kR.sk", enc="$e.enc", cls="plain")
            s.call("encap", pkr="$kR.pk", sks="$kS.sk", pks="$kS.pk", rng=rng, out="a", cls="auth")
            s.call("decap", skr="$kR.sk", enc="$a.enc", pks="$kS.pk", cls="auth")
            # value comparison only: mismatched identity pair, wrong expected sender
            s.call("encap", pkr="$kR.pk", sks="$kS.sk", pks="$kX.pk", rng=rng, out="b", cls="auth-mismatched-pair")
            s.call("decap", skr="$kR.sk", enc="$a.enc", pks="$kX.pk", cls="auth-wrong-sender")
            s.call("decap", skr="$kX.sk", enc="$e.enc", cls="plain-wrong-recipient")
            # the recipient's own public key is a perfectly valid encapsulated key
            s.call("decap", skr="$kR.sk", enc="$kR.pk", cls="enc-equals-pkR")
            s.call("decap", skr="$kR.sk", enc="$kR.pk", pks="$kS.pk", cls="enc-equals-pkR")
            s.call("decap", skr="$kR.sk", enc="$kS.pk", pks="$kS.pk", cls="enc-equals-pkS")
            if kem == 0x0020:
                s.call("encap", pkr="$kR.pk^flip:255", rng=rng, cls="pkR-high-bit")
                s.call("encap", pkr="$kR.pk^flip:255", sks="$kS.sk", pks="$kS.pk^flip:255", rng=rng, cls="pkR-pkS-high-bit")
                s.call("decap", skr="$kR.sk", enc="$e.enc^flip:255", cls="enc-high-bit")
                s.call("decap", skr="$kR.sk", enc="$a.enc", pks="$kS.pk^flip:255", cls="pkS-high-bit")
        # --- decap of reference-produced encapsulations
        k = R.KEMS[kem]
        for j in range(reps * 4):
            s = cw.session(kem, kdf, 1, sid="rd%04x_%d" % (kem, j))
            skR, pkR = k.derive_key_pair(g.raw(n))
            skS, pkS = k.derive_key_pair(g.raw(n))
            ss, enc = k.encap(pkR, g.raw(n))
            s.call("decap", skr=k.serialize_private(skR), enc=enc, cls="ref-plain", want=cl.hexs(ss))
            ss, enc = k.encap(pkR, g.raw(n), skS)
            s.call("decap", skr=k.serialize_private(skR), enc=enc, pks=k.serialize_public(pkS), cls="ref-auth", want=cl.hexs(ss))
    # --- Diffie-Hellman results with special shapes (x = 0, tiny x, leading zero bytes; X25519 outputs full of zero bytes):
    # the peer key is constructed so that the DH value with the key derived from the given ikm / RNG bytes is the target
    import random
    from lib import directed
    for kem in gen.KEMS:
        k = R.KEMS[kem]
        n = gen.nsk(kem)
        s = cw.session(kem, k.kdf_id, 1, sid="sd%04x" % kem)
        ikmR, rngE = g.raw(n), g.raw(n)
        skR, _ = k.derive_key_pair(ikmR)
        skE, _ = k.derive_key_pair(rngE)
        s.call("derive_keypair", ikm=ikmR, out="kR")
        gen.add_keys(s, g, kem, "kS")
        if k.curve is None:
            peers_R = [(nm, enc) for nm, enc, _ in directed.x25519_structured_outputs(random.Random(env.rnd.getrandbits(32)), skR)]
            peers_E = [(nm, pk) for nm, pk, _ in directed.x25519_structured_outputs(random.Random(env.rnd.getrandbits(32)), skE)]
        else:
            c = k.curve
            tg = directed.nist_special_dh_targets(c, env.rnd)
            peers_R = [(nm, c.encode_public(directed.nist_peer_for_dh_x(c, skR, x))) for nm, x in tg]
            peers_E = [(nm, c.encode_public(directed.nist_peer_for_dh_x(c, skE, x))) for nm, x in tg]
        for nm, enc in peers_R:
            s.call("decap", skr="$kR.sk", enc=enc, cls="dh:" + nm)
            s.call("decap", skr="$kR.sk", enc=enc, pks="$kS.pk", cls="dh:" + nm)
        for nm, pk in peers_E:
            s.call("encap", pkr=pk, rng=rngE.hex() + "aa" * 8, cls="dh:" + nm)
            s.call("encap", pkr=pk, sks="$kS.sk", pks="$kS.pk", rng=rngE.hex() + "aa" * 8, cls="dh:" + nm)
    # --- private keys that share long prefixes / suffixes, used back to back (a cache keyed on part of the key)
    for kem in gen.KEMS:
        k = R.KEMS[kem]
        n = gen.nsk(kem)
        s = cw.session(kem, k.kdf_id, 1, sid="ps%04x" % kem)
        gen.add_keys(s, g, kem, "kP")
        s.call("encap", pkr="$kP.pk", rng=g.rbytes(n), out="pe")
        base = bytearray(g.raw(n))
        base[0] = 0 if k.curve is not None else base[0]  # stay below the group order
        sibs = []
        for cut in (32, 16, n - 1, 1):
            if cut >= n:
                continue
            pre = bytearray(bytes(base[:cut]) + g.raw(n - cut))      # same first `cut` bytes
            suf = bytearray(g.raw(n - cut) + bytes(base[n - cut:]))  # same last `cut` bytes
            if k.curve is not None:
                pre[0] = 0
                suf[0] = 0
            sibs += [bytes(pre), bytes(suf)]
        for sk in [bytes(base)] + sibs + [bytes(base)]:
            if len(sk) != n:
                continue
            s.call("sk_to_pk", sk=sk, cls="sibling")
            s.call("decap", skr=sk, enc="$pe.enc", cls="sibling")
    build_toy(env, cw, g, reps)
    build_mock_kem(env, cw, g, reps)
    build_special_scalars(env, cw, g)
    return cw


def build_special_scalars(env, cw, g):
    """X25519 private keys with an algebraic peculiarity: 5*l - 1 (clamped, acts as -1: DH(k, P) has P's own u-coordinate)"""
    s = cw.session(0x0020, 1, 1, sid="spx")
    sk = "a023cdd083ef5bb82f10d62e59e15a6800000000000000000000000000000050"
    s.call("sk_to_pk", sk=sk, out="kM", cls="special:minus_one")
    gen.add_keys(s, g, 0x0020, "kS")
    for _ in range(3):
        rng = g.raw(32).hex() + "aa" * 8
        s.call("encap", pkr="$kM.pk", rng=rng, out="e", cls="special:minus_one")
        s.call("decap", skr=sk, enc="$e.enc", cls="special:minus_one")
        s.call("encap", pkr="$kM.pk", sks="$kS.sk", pks="$kS.pk", rng=rng, out="a", cls="special:minus_one")
        s.call("decap", skr=sk, enc="$a.enc", pks="$kS.pk", cls="special:minus_one")
        s.call("encap", pkr="$kS.pk", sks=sk, pks="$kM.pk", rng=rng, out="b", cls="special:minus_one")
        s.call("decap", skr="$kS.sk", enc="$b.enc", pks="$kM.pk", cls="special:minus_one")


def build_mock_kem(env, cw, g, reps):
    """The trait's DEFAULT methods (gen_keypair) and the plumbing around a KEM, with a KEM whose sizes are all 96 bytes
    (harness/src/mockkem.rs): gen_keypair must equal DeriveKeyPair of the Nsk = 96 bytes drawn."""
    kem = 0x7E57
    n = gen.nsk(kem)
    s = cw.session(kem, 1, 1, sid="mk")
    s.call("sizes")
    for L in (0, 1, n - 1, n, n + 1, 200, 1024):
        s.call("derive_keypair", ikm=g.rbytes(L), cls="mock:len%d" % L)
    for _ in range(reps):
        s.call("gen_keypair", rng=g.raw(n).hex() + "aa" * 8, cls="mock")
    s.call("gen_keypair", rng="00" * n + "aa" * 8, cls="mock")
    gen.add_keys(s, g, kem, "kR")
    gen.add_keys(s, g, kem, "kS")
    s.call("sk_to_pk", sk="$kR.sk", cls="mock")
    for _ in range(reps):
        rng = g.raw(n).hex() + "aa" * 8
        s.call("encap", pkr="$kR.pk", rng=rng, out="e", cls="mock")
        s.call("decap", skr="$kR.sk", enc="$e.enc", cls="mock")
        s.call("encap", pkr="$kR.pk", sks="$kS.sk", pks="$kS.pk", rng=rng, out="a", cls="mock")
        s.call("decap", skr="$kR.sk", enc="$a.enc", pks="$kS.pk", cls="mock")


def toy_table(rnd, kem, rows):
    """256 x 64 table for the steerable hash (ref/toyhash.py): row c IS the candidate of counter c
    (byte 62 of every row is its own number, which is what makes the row reachable from counter c)."""
    t = bytearray(rnd.getrandbits(8) for _ in range(256 * 64))
    for c, row in rows.items():
        t[c * 64:(c + 1) * 64] = (bytes(row) + bytes(rnd.getrandbits(8) for _ in range(64)))[:64]
    for c in range(256):
        t[c * 64 + 62] = c
    return bytes(t)


def toy_candidates(rnd, kem):
    """byte strings (the first bytes of a row) per class, for one NIST KEM.  For P-521 the candidate is
    row || row[0:2] with byte 62 equal to the counter, so classes are built on prefixes that decide the comparison
    with n before byte 62."""
    from ref import toyhash
    curve, nsk, mask = toyhash.NIST[kem]
    w = min(nsk, 64)
    nb = curve.n.to_bytes(nsk, "big")

    def enc(v):
        return v.to_bytes(nsk, "big")[:w]

    def tail(k):
        return bytes(rnd.getrandbits(8) for _ in range(w - k))
    rej = {"max": b"\xff" * w}
    acc = {"rand": enc(rnd.randrange(1, curve.n))}
    # candidates equal to n up to byte k-1 and one above / one below it at byte k: the range check near the boundary
    ks = [i for i in range(1, min(w, 61)) if 0 < nb[i] < 0xff]
    for k_ in (ks[0], ks[len(ks) // 2], ks[-1]):
        rej["n@%d+1" % k_] = nb[:k_] + bytes([nb[k_] + 1]) + tail(k_ + 1)
        acc["n@%d-1" % k_] = nb[:k_] + bytes([nb[k_] - 1]) + tail(k_ + 1)
    if nsk <= 64:
        rej.update({"zero": enc(0), "n": enc(curve.n), "n+1": enc(curve.n + 1), "n+rand": enc(rnd.randrange(curve.n, 1 << (8 * nsk)))})
        acc.update({"n-1": enc(curve.n - 1), "n-2": enc(curve.n - 2), "one": enc(1), "two": enc(2), "small": enc(rnd.randrange(1, 1 << 64))})
    if mask == 1:
        # P-521: bits above 521 in byte 0 must be masked off on EVERY iteration
        for hb in (0xfe, 0xf0, 0x80, 0x02, 0xfc, 0x00):
            acc["hi%02x" % hb] = bytes([hb]) + enc(rnd.randrange(1, curve.n))[1:]
        for hb in (0xff, 0xf1, 0x81, 0x03, 0x01):
            acc["hi%02x" % hb] = bytes([hb]) + b"\x00" + enc(rnd.randrange(1, curve.n))[2:]  # 2^520 + small: valid
        for hb in (0x01, 0x03, 0x81, 0xf1):
            rej["hi%02x-max" % hb] = bytes([hb]) + b"\xff" * (w - 1)
    return rej, acc


def build_toy(env, cw, g, reps):
    """DeriveKeyPair with chosen candidates (hook verif_derive_keypair_with + harness/src/toy.rs): rejection runs of
    every length, boundary candidates, P-521 high bits, and 256 rejections in a row.  Every call is labelled with
    what the reference says happened (accepted counter), not with what the construction intended."""
    from ref import toyhash
    rnd = env.rnd

    def call(s, kem, ikm, rows, what):
        t = toy_table(rnd, kem, rows)
        st, _, counter, _ = toyhash.derive(kem, ikm, t)
        bucket = "all-rejected" if st != "ok" else ("c%d" % counter if counter < 4 else "c4-99" if counter < 100 else "c100-254" if counter < 255 else "c255")
        s.call("derive_toy", ikm=ikm, table=t, cls="toy:%s:%s" % (bucket, what))

    for kem in gen.KEMS:
        k = R.KEMS[kem]
        s = cw.session(kem, k.kdf_id, 1, sid="ty%04x" % kem)
        if k.curve is None:
            for _ in range(4):
                s.call("derive_toy", ikm=g.rbytes(rnd.randrange(0, 80)), table=toy_table(rnd, kem, {}), cls="toy:x25519")
            continue
        rej, acc = toy_candidates(rnd, kem)
        rn, an = sorted(rej), sorted(acc)
        runs = [0, 1, 2, 3, 5, 17, 127, 128, 200, 254, 255] + [rnd.randrange(1, 255) for _ in range(reps)]
        for i, run in enumerate(runs):
            a = an[i % len(an)]
            rows = {c: rej[rn[(c + i) % len(rn)]] for c in range(run)}
            rows[run] = acc[a]
            call(s, kem, g.raw(rnd.randrange(0, 80)), rows, a)
        for a in an:      # every accept class right after one rejection of every class
            for r_ in rn:
                call(s, kem, g.raw(8), {0: rej[r_], 1: acc[a]}, "%s>%s" % (r_, a))
        # no candidate is ever in range: RFC 9180 DeriveKeyPairError (the crate: documented panic)
        for j in range(2):
            call(s, kem, g.raw(8), {c: rej[rn[(c + j) % len(rn)]] for c in range(256)}, "-")
        for _ in range(reps):   # free-running tables
            call(s, kem, g.raw(rnd.randrange(0, 80)), {}, "free")


def monitor(sess, extra):
    r = fw.MonResult()
    ref = refinterp.RefSession(sess.ids)
    k = R.KEMS[sess.ids[0]]
    for op in sess.ops:
        if op.ret is None:
            r.violation("C03:noreturn:%s" % op.op, "%s never returned" % op.id, sess, op)
            break
        exp = ref.expect(op)
        if exp is None:
            continue
        mism = refinterp.compare(op, exp)
        r.counts["evaluations"] += 1
        cls = op.args.get("cls", "-")
        if mism:
            field = mism[0].split(":")[0].split(" ")[0]
            r.violation("C03:%s:%s" % (op.op, field),
                        "%s [%s] on KEM %04x: %s" % (op.op, cls, sess.ids[0], "; ".join(mism)), sess, op)
            continue
        if "want" in op.args and op.ret.get("ss") != op.args["want"]:
            r.violation("C03:decap:refss", "decap of a reference encapsulation gave a different shared secret", sess, op)
            continue
        if op.op in ("derive_keypair", "gen_keypair") and k.curve is not None:
            ikm = op.b.get("ikm") if op.op == "derive_keypair" else op.b["rng"][: k.nsk]
            cnt = k.derive_key_pair(ikm, want_counter=True)[2]
            if cnt > 0:
                r.counts["retry_path_derivations"] += 1
            if cls == "rare" and cnt == 0:
                r.inconclusive.append("directed rare input did not take the retry path in the reference")
        if op.op == "derive_toy" and "skip" not in op.ret:
            from ref import toyhash
            st, _, counter, seen = toyhash.derive(sess.ids[0], op.b["ikm"], op.b["table"])
            r.counts["steered_derivations"] += 1
            if k.curve is not None:
                r.counts["steered_candidates_rejected:%04x" % sess.ids[0]] += counter
                if counter > 0:
                    r.counts["steered_retry_derivations:%04x" % sess.ids[0]] += 1
                if st != "ok":
                    r.counts["steered_all_256_rejected:%04x" % sess.ids[0]] += 1
                r.distinct.add((sess.ids[0], "steered-accepted-counter", cls.split(":")[1]))
        r.distinct.add((sess.ids[0], op.op, cls))
        r.counts["op:%s" % op.op] += 1
    if sess.ops and not r.samples:
        o = sess.ops[min(3, len(sess.ops) - 1)]
        r.samples.append({"session": sess.header, "call": o.raw[:200], "result": {k2: (v if len(v) < 80 else v[:80] + "…") for k2, v in (o.ret or {}).items()}})
    return r


MONITORS = {"kem": monitor}


def run(env):
    reps = env.pick(6, 150)
    cw = build(env, reps)
    res = env.drive("kem", cw.text())
    env.require_complete(res, "kem")
    mr = env.pmap(monitor, res.sessions, workload="kem")
    for b in ("fast", "checked-std"):
        rb = env.drive("kem", cw.text(), build=b)
        env.require_complete(rb, "kem/" + b)
        env.pmap(monitor, rb.sessions, workload="kem")
    env.extra_cov["sessions"] = len(res.sessions)
    if mr.counts["retry_path_derivations"] < 3 and not env.violations:
        raise fw.Inconclusive("the P-256 retry path was not observed (%d)" % mr.counts["retry_path_derivations"])
    for kem in (0x0010, 0x0011, 0x0012):
        missing = [b for b in ("c0", "c1", "c2", "c3", "c4-99", "c100-254", "c255", "all-rejected") if (kem, "steered-accepted-counter", b) not in mr.distinct]
        if missing and not env.violations:
            raise fw.Inconclusive("steered DeriveKeyPair for KEM %04x never produced: %s" % (kem, ", ".join(missing)))


def replay(env, path):
    import props.c03 as me
    fw.generic_replay(env, me, path)
