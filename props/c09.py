"""C09 - NIST-curve keys are accepted only if valid, canonical and in range.
The generator *constructs* hostile encodings (off-curve, twist and wrong-b points, non-canonical
coordinates, identity, every tag byte, compressed forms, every length); the monitor compares the
verdict of from_bytes with an explicit decision procedure on Python integers."""
from lib import caselang as cl
from lib import framework as fw
from lib import gen
from ref import curves
from ref import hpke_ref as R

RULE = ("one case = one byte string given to PublicKey/EncappedKey/PrivateKey::from_bytes of a NIST KEM; the verdict "
        "(Ok + identical re-serialization / IncorrectInputLength(expected, given) / ValidationError) is compared with the "
        "reference decision procedure; distinct = distinct (curve, kind, input class) combinations")
ASSUMPTIONS = ["decision procedure: length exact, tag 0x04, x,y < p, curve equation (public); length exact, 1 <= d < n (private)",
               "curve constants cross-checked against libcrypto in the self-test"]

NIST = [0x0010, 0x0011, 0x0012]


def small_x_points(c, count, lo=1):
    out = []
    x = lo
    while len(out) < count:
        y = c.lift_x(x)
        if y is not None:
            out.append((x, y))
        x += 1
    return out


def public_inputs(c, rnd, scale):
    W = c.nbytes
    p = c.p
    enc = lambda x, y, tag=4, w=W: bytes([tag]) + (x % (1 << (8 * w))).to_bytes(w, "big") + (y % (1 << (8 * w))).to_bytes(w, "big")  # noqa
    items = []
    # valid points
    pts = [c.mul_base(rnd.randrange(1, c.n)) for _ in range(4 * scale)]
    pts += [c.mul_base(k) for k in (1, 2, 3, c.n - 1, c.n - 2)]
    pts += small_x_points(c, 3 * scale, lo=0)  # includes (0, sqrt(b)), a valid point on all three curves
    # valid points whose x lies between the group order n and the field prime p (canonical for the field, not for the scalar ring)
    got = 0
    x = c.p - 1
    while got < 3 and x >= c.n:
        y = c.lift_x(x)
        if y is not None:
            pts.append((x, y))
            got += 1
        x -= 1
    for _ in range(400):
        x = rnd.randrange(c.n, c.p)
        y = c.lift_x(x)
        if y is not None:
            pts.append((x, y))
            break
    for (x, y) in pts:
        items.append(("valid", enc(x, y)))
        items.append(("valid_negated", enc(x, p - y)))
        # each invalid relative is followed by the valid key itself: a verdict must not depend on what was parsed before
        for cls, bad in (("offcurve_y_plus_1", enc(x, (y + 1) % p)), ("offcurve_x_plus_1", enc((x + 1) % p, y)), ("offcurve_swapped", enc(y, x)),
                         ("offcurve_words_rotated", bytes([4]) + (enc(x, y)[9:] + enc(x, y)[1:9])), ("offcurve_bytes_reversed", bytes([4]) + enc(x, y)[:0:-1])):
            items.append((cls, bad))
            items.append(("valid_again", enc(x, y)))
    # leading zero bytes in x / y: search a few random points for them is hopeless; use small x
    for (x, y) in small_x_points(c, 2, lo=rnd.randrange(2, 1 << 20)):
        items.append(("valid_small_x", enc(x, y)))
    # non-canonical: coordinate + p where it still fits in the byte width
    room = (1 << (8 * W)) - p
    for (x, y) in small_x_points(c, 4 * scale, lo=rnd.randrange(1, 1 << 16)):
        if x < room:
            items.append(("noncanonical_x_plus_p", enc(x + p, y)))
        if y < room:
            items.append(("noncanonical_y_plus_p", enc(x, y + p)))
    if c.name == "p521":
        for (x, y) in pts[:4]:
            items.append(("noncanonical_x_plus_p", enc(x + p, y)))
            items.append(("noncanonical_y_plus_p", enc(x, y + p)))
            items.append(("high_bits_set", bytes([4]) + bytes([0xFE | (x >> 520)]) + x.to_bytes(W, "big")[1:] + y.to_bytes(W, "big")))
    # invalid-curve points: same field, y^2 = x^3 - 3x + b' with b' != b  (includes the twist-like cases)
    for _ in range(4 * scale):
        x = rnd.randrange(p)
        y = rnd.randrange(p)
        bprime = (y * y - (x * x * x - 3 * x)) % p
        if bprime != c.b:
            items.append(("invalid_curve_point", enc(x, y)))
    # quadratic twist: x for which x^3-3x+b is a non-residue, with the y of the twisted equation
    cnt = 0
    while cnt < 2 * scale:
        x = rnd.randrange(p)
        if c.lift_x(x) is None:
            rhs = (x * x * x - 3 * x + c.b) % p
            y = c.sqrt((-rhs) % p)
            if y is not None:
                items.append(("twist_point", enc(x, y)))
                cnt += 1
    # low-order points on other-b curves: (x, 0) has order 2 on y^2 = x^3-3x+b' with b' = -(x^3-3x)
    for _ in range(scale):
        items.append(("order2_on_other_curve", enc(rnd.randrange(p), 0)))
    # special coordinates
    for v in (0, 1, p - 1, p, p + 1 if p + 1 < (1 << (8 * W)) else p, (1 << (8 * W)) - 1):
        items.append(("special_coord", enc(v, v)))
        items.append(("special_coord", enc(v, 1)))
        items.append(("special_coord", enc(c.G[0], v)))
    items.append(("identity_04_0_0", enc(0, 0)))
    # every leading byte in front of a valid X||Y
    gx, gy = pts[0]
    for tag in range(256):
        if tag != 4:
            items.append(("foreign_tag_%s" % ("hybrid" if tag in (6, 7) else "compressed" if tag in (2, 3) else "other"), enc(gx, gy, tag)))
    # compressed / identity / other lengths
    items.append(("identity_00", b"\x00"))
    for tag in (2, 3):
        items.append(("compressed_form", bytes([tag]) + gx.to_bytes(W, "big")))
    valid = enc(gx, gy)
    for L in range(0, 2 * c.npk + 3):
        if L != c.npk:
            items.append(("wrong_length", (valid * 3)[:L]))
    items.append(("wrong_length", valid + b"\x00"))
    for alias in (256, 65536, 131072):
        items.append(("wrong_length_alias", valid + bytes(alias)))
    items.append(("wrong_length_long", valid * 40))
    for _ in range(3 * scale):
        items.append(("random_bytes", bytes([4]) + bytes(rnd.getrandbits(8) for _ in range(2 * W))))
    return items


def private_inputs(c, rnd, scale):
    W = c.nbytes
    n = c.n
    top = 1 << (8 * W)
    items = []
    for v in (1, 2, n - 2, n - 1):
        items.append(("valid_edge", v.to_bytes(W, "big")))
    for v in (0, n, n + 1, top - 1, c.p % top, (2 * n) % top if 2 * n < top else n + 2):
        if v >= n or v == 0:
            items.append(("invalid_edge", v.to_bytes(W, "big")))
    for _ in range(6 * scale):
        items.append(("valid_random", rnd.randrange(1, n).to_bytes(W, "big")))
        v = rnd.randrange(n, top) if top > n + 1 else n
        items.append(("invalid_random_ge_n", v.to_bytes(W, "big")))
    if c.name == "p521":
        for _ in range(4 * scale):
            v = rnd.randrange(1, n) | (rnd.randrange(1, 128) << 521)
            items.append(("p521_bits_above_521", v.to_bytes(W, "big")))
    good = (n - 5).to_bytes(W, "big")
    for L in range(0, 2 * W + 3):
        if L != W:
            items.append(("wrong_length", (good * 3)[:L]))
    for alias in (256, 65536):
        items.append(("wrong_length_alias", good + bytes(alias)))
    return items


def build(env, scale):
    cw = cl.CaseW()
    for kem in NIST:
        c = R.KEMS[kem].curve
        s = cw.session(kem, R.KEMS[kem].kdf_id, 1, sid="v%04x" % kem)
        pub = public_inputs(c, env.rnd, scale)
        for cls, b in pub:
            s.call("from_bytes", kind="pk", bytes=b, cls=cls)
            s.call("from_bytes", kind="enc", bytes=b, cls=cls)
        for cls, b in private_inputs(c, env.rnd, scale):
            s.call("from_bytes", kind="sk", bytes=b, cls=cls)
    return cw


def monitor(sess, extra):
    r = fw.MonResult()
    c = R.KEMS[sess.ids[0]].curve
    for op in sess.ops:
        if op.op != "from_bytes":
            continue
        if op.ret is None:
            r.violation("C09:noreturn", "%s never returned" % op.id, sess, op)
            break
        kind = op.args["kind"]
        data = op.b["bytes"]
        cls = op.args.get("cls", "?")
        d = c.decode_private(data) if kind == "sk" else c.decode_public(data)
        r.counts["evaluations"] += 1
        if d[0] == "ok":
            want = "ok"
        elif d[0] == "len":
            want = "err=IncorrectInputLength:%d:%d" % (d[1], d[2])
        else:
            want = "err=ValidationError"
        got = op.outcome()
        if got != want:
            why = d[1] if d[0] == "invalid" else ""
            accept = got == "ok"
            r.violation("C09:%s:%s:%s" % (kind, "accepted_invalid" if accept else "verdict", cls.split("_")[0] if not accept else cls),
                        "%s::from_bytes on %s (%d bytes, class %s%s): got %s, decision procedure says %s"
                        % ({"pk": "PublicKey", "enc": "EncappedKey", "sk": "PrivateKey"}[kind], c.name, len(data), cls, ", " + why if why else "", got, want), sess, op)
            continue
        if got == "ok":
            if op.out("re") != data:
                r.violation("C09:%s:reserialize" % kind, "accepted key re-serializes to different bytes", sess, op)
                continue
            if op.ret.get("eq") != "1":
                r.violation("C09:%s:roundtrip_eq" % kind, "from_bytes(to_bytes(v)) != v", sess, op)
                continue
        r.distinct.add((c.name, kind, cls, d[0]))
        r.counts["verdict:%s" % d[0]] += 1
    if sess.ops and not r.samples:
        for o in sess.ops:
            if o.args.get("cls") in ("invalid_curve_point", "twist_point"):
                r.samples.append({"session": sess.header, "call": o.raw[:200], "result": o.outcome()})
                break
    return r


MONITORS = {"keys": monitor}


def run(env):
    cw = build(env, env.pick(10, 80))
    res = env.drive("keys", cw.text())
    env.require_complete(res, "keys")
    mr = env.pmap(monitor, res.sessions, workload="keys", procs=3)
    classes = {d[2] for d in env.distinct}
    env.extra_cov["input_classes"] = sorted(classes)
    need = {"invalid_curve_point", "twist_point", "noncanonical_x_plus_p", "compressed_form", "identity_00", "wrong_length", "valid"}
    if not need <= classes and not env.violations:
        raise fw.Inconclusive("input classes not observed: %s" % sorted(need - classes))


def replay(env, path):
    import props.c09 as me
    fw.generic_replay(env, me, path)
