"""C02 - wire-exact RFC 9180: enc, every ciphertext and every export of the real sender equal the
independent reference on the same inputs and RNG bytes; the real receiver opens and exports the
same as the reference on transcripts the reference produced."""
import multiprocessing

from lib import caselang as cl
from lib import framework as fw
from lib import gen
from lib import refinterp
from ref import hpke_ref as R

RULE = ("one case = one operation of a scripted session whose complete observable result is compared "
        "byte-for-byte with the reference; distinct = distinct (direction, kem, kdf, aead, mode, operation) "
        "cells with at least one compared result")
ASSUMPTIONS = ["reference model anchored on RFC 9180 A.1.1/A.3.1 and primitive vectors; OpenSSL AEAD",
               "inputs for which RFC 9180 defines no output (empty PSK bundle in a PSK mode) are excluded"]

RARE_P256 = [
    "3941c11b0200000076657269662d703235362d726172652d6576742d73656564",
    "1e50e32b0100000076657269662d703235362d726172652d6576742d73656564",
    "cdabc9720200000076657269662d703235362d726172652d6576742d73656564",
]


def rng_pattern(g, rnd, kem, k):
    n = gen.nsk(kem)
    choice = k % 6
    if choice == 1:
        return "00" * n + "aa" * 8
    if choice == 2:
        return "ff" * n + "aa" * 8
    if choice == 3:
        return ("0102" * n)[: 2 * n] + "aa" * 8
    if choice == 4 and kem == 0x0010:
        return RARE_P256[rnd.randrange(3)] + "aa" * 8
    return g.raw(n).hex() + "aa" * 8


def export_lens(rnd, kdf):
    nh = {1: 32, 2: 48, 3: 64}[kdf]
    return rnd.sample([0, 1, nh - 1, nh, nh + 1, 2 * nh, 255 * nh], 3) + [32]


def sender_session(cw, env_rnd, ids, mode, k, nmsgs, sid):
    """impl as sender (and impl as receiver of its own messages)"""
    kem, kdf, aead = ids
    g = gen.G(env_rnd)
    s = cw.session(kem, kdf, aead, sid=sid)
    info = g.blob(gen.LEN_SMALL + [300, 1000, 4097, 65537], maxrand=600)
    psk = pskid = None
    if mode in (1, 3):
        psk = g.rbytes(env_rnd.choice([1, 16, 32, 33, 64, 65, 100, 300, 4096]))
        pskid = g.rbytes(env_rnd.choice([1, 8, 32, 65, 300, 1000]))
    m = gen.add_pair(s, g, kem, mode, info=info, psk=psk, pskid=pskid, rng=rng_pattern(g, env_rnd, kem, k))
    for i in range(nmsgs if aead != 0xFFFF else 0):
        pt = g.blob(gen.LEN_SMALL, maxrand=300)
        aad = g.blob(gen.LEN_SMALL + ([65535, 65536, 65537, 70000] if i == 0 and k % 3 == 0 else []), maxrand=100)
        api = env_rnd.choice(["alloc", "inplace"])
        s.call("seal", ctx="S", api=api, pt=pt, aad=aad, out="m%d" % i)
        if api == "alloc":
            s.call("open", ctx="R", api="alloc", ct="$m%d.full" % i, aad=aad)
        else:
            s.call("open", ctx="R", api="inplace", ct="$m%d.ct" % i, tag="$m%d.tag" % i, aad=aad)
    for L in export_lens(env_rnd, kdf):
        ex = g.blob([0, 1, 32, 255], maxrand=100)
        s.call("export", ctx="S", exctx=ex, len=L)
        s.call("export", ctx="R", exctx=ex, len=L)
    if aead != 0xFFFF and k % 2 == 0:
        # single-shot forms (info != aad), sealed by the real code and opened by the real code
        for api in ("alloc", "inplace"):
            sinfo, saad = g.rbytes(env_rnd.choice([0, 7, 64])), g.rbytes(env_rnd.choice([0, 9, 33, 65537]))
            q = "q" + api
            s.call("ss_seal", mode=mode, pkr="$kR.pk", info=sinfo, pt=g.blob(gen.LEN_SMALL, maxrand=200), aad=saad,
                   rng=rng_pattern(g, env_rnd, kem, 0), api=api, out=q, **m["sargs"])
            ra = dict(mode=mode, skr="$kR.sk", enc="$%s.enc" % q, info=sinfo, **m["rargs"])
            if api == "alloc":
                s.call("ss_open", api="alloc", ct="$%s.full" % q, aad=saad, **ra)
            else:
                s.call("ss_open", api="inplace", ct="$%s.ct" % q, tag="$%s.tag" % q, aad=saad, **ra)
    return s


def ref_sender_session(cw, env_rnd, ids, mode, nmsgs, sid):
    """reference as sender: the case carries literal bytes produced by the reference"""
    kem, kdf, aead = ids
    g = gen.G(env_rnd)
    su = R.suite(*ids)
    k = su.kem
    skR, pkR = k.derive_key_pair(g.raw(k.nsk))
    skS = pkS = None
    psk = pskid = b""
    if mode in (2, 3):
        skS, pkS = k.derive_key_pair(g.raw(k.nsk))
    if mode in (1, 3):
        psk = g.raw(env_rnd.choice([1, 32, 33, 64, 65, 300, 2000]))
        pskid = g.raw(env_rnd.choice([1, 8, 40, 300, 1500]))
    info = g.raw(env_rnd.choice([0, 1, 20, 64, 65, 200, 300, 1000, 5000]))
    enc, ctx, _ = su.setup_s(mode, pkR, info, g.raw(k.nsk), psk, pskid, skS)
    s = cw.session(kem, kdf, aead, sid=sid)
    margs = {}
    if mode in (1, 3):
        margs.update(psk=psk, pskid=pskid)
    if mode in (2, 3):
        margs.update(pks=k.serialize_public(pkS))
    s.call("setup_r", mode=mode, skr=k.serialize_private(skR), enc=enc, info=info, out="R", **margs)
    if aead != 0xFFFF:
        for i in range(nmsgs):
            pt = g.raw(env_rnd.choice([0, 1, 15, 16, 17, 64, 100, 257]))
            aad = g.raw(env_rnd.choice([0, 1, 16, 33]))
            full = ctx.seal(aad, pt)
            if env_rnd.random() < 0.5:
                s.call("open", ctx="R", api="alloc", ct=full, aad=aad, want=cl.hexs(pt))
            else:
                s.call("open", ctx="R", api="inplace", ct=full[:-16], tag=full[-16:], aad=aad, want=cl.hexs(pt))
    if aead != 0xFFFF:
        enc2, ctx2, _ = su.setup_s(mode, pkR, info, g.raw(k.nsk), psk, pskid, skS)
        pt2, aad2 = g.raw(env_rnd.choice([0, 1, 31, 64])), g.raw(env_rnd.choice([0, 7, 40]))
        full2 = ctx2.seal(aad2, pt2)
        ssa = dict(mode=mode, skr=k.serialize_private(skR), enc=enc2, info=info, **margs)
        s.call("ss_open", api="alloc", ct=full2, aad=aad2, want=cl.hexs(pt2), **ssa)
        s.call("ss_open", api="inplace", ct=full2[:-16], tag=full2[-16:], aad=aad2, want=cl.hexs(pt2), **ssa)
    for L in export_lens(env_rnd, kdf):
        ex = g.raw(env_rnd.choice([0, 1, 32, 100]))
        want = ctx.export(ex, L)
        s.call("export", ctx="R", exctx=ex, len=L, want=cl.outenc(want))
    return s


def _gen_shard(spec):
    import random
    seed, items, direction, nmsgs = spec
    rnd = random.Random(seed)
    cw = cl.CaseW()
    for (ix, ids, mode, k) in items:
        sid = "%s%d" % (direction[0], ix)
        if direction == "impl":
            sender_session(cw, rnd, ids, mode, k, rnd.randrange(0, nmsgs + 1), sid)
        else:
            ref_sender_session(cw, rnd, ids, mode, rnd.randrange(0, nmsgs + 1), sid)
    return "".join(s.text() for s in cw.sessions)


TOY_SUITES = [(0x7E57, d, a) for d in (1, 3) for a in (1, 3, 0xFFFF)]


def generate(env, direction, per_cell, nmsgs, suites=None):
    items = []
    ix = 0
    for ids in (suites or gen.suites(sealing_only=False)):
        for mode in gen.MODES:
            for k in range(per_cell):
                items.append((ix, ids, mode, k))
                ix += 1
    # shard so the slow (P-521) cells spread out
    nsh = fw.NCPU * 4
    shards = [items[i::nsh] for i in range(nsh)]
    specs = [(env.rnd.getrandbits(60), sh, direction, nmsgs) for sh in shards if sh]
    ctx = multiprocessing.get_context("fork")
    with ctx.Pool(fw.NCPU) as pool:
        texts = pool.map(_gen_shard, specs)
    return "".join(texts)


def monitor(sess, extra):
    r = fw.MonResult()
    ref = refinterp.RefSession(sess.ids)
    direction = "impl-sender" if sess.sid.startswith("i") else "ref-sender"
    mode = None
    for op in sess.ops:
        if op.op in ("setup_s", "setup_r", "ss_seal", "ss_open"):
            mode = op.args.get("mode")
        if op.ret is None:
            r.violation("C02:noreturn:%s" % op.op, "%s never returned" % op.id, sess, op)
            break
        exp = ref.expect(op)
        if exp is None:
            r.counts["undefined_by_rfc"] += 1
            continue
        mism = refinterp.compare(op, exp)
        r.counts["evaluations"] += 1
        if mism:
            field = mism[0].split(":")[0].split(" ")[0]
            r.violation("C02:%s:%s:%s" % (direction, op.op, field),
                        "%s %s (suite %04x/%d/%04x mode %s): %s" % (direction, op.op, sess.ids[0], sess.ids[1], sess.ids[2], mode, "; ".join(mism)),
                        sess, op)
            # one witness per session is enough; later operations only repeat it
            break
        # the generator's own expectation for reference-produced transcripts
        if "want" in op.args and op.ok():
            got = op.ret.get("pt", op.ret.get("out"))
            if got != op.args["want"]:
                r.violation("C02:%s:%s:want" % (direction, op.op), "receiver result differs from what the reference sender sealed/exported", sess, op)
                break
        r.distinct.add((direction, sess.ids, mode, op.op))
        r.counts["op:%s" % op.op] += 1
    if len(r.samples) < 1 and sess.ops:
        o = sess.ops[-1]
        r.samples.append({"session": sess.header, "direction": direction, "mode": mode, "ops": len(sess.ops),
                          "last": o.raw[:160], "result": o.outcome()})
    return r


def aliasing_sessions(env, reps):
    """Arguments that are EQUAL to each other or derived from each other - relations a generator of
    independent random arguments never produces: info == psk_id, info == psk, psk == psk_id, aad == info,
    exporter context == info, sender identity key pair == recipient key pair, ephemeral randomness that
    derives the sender's (or the recipient's) own key pair, enc == pkR on the receiving side."""
    g = gen.G(env.rnd)
    rnd = env.rnd
    cw = cl.CaseW()
    n = 0
    for kem in gen.KEMS:
        nsk = gen.nsk(kem)
        for r in range(reps):
            for mode in gen.MODES:
                kdf, aead = rnd.choice(gen.KDFS), rnd.choice(gen.ALL_AEADS)
                s = cw.session(kem, kdf, aead, sid="iA%d" % n)
                n += 1
                ikmR, ikmS = g.raw(nsk), g.raw(nsk)
                s.call("derive_keypair", ikm=ikmR, out="kR")
                s.call("derive_keypair", ikm=ikmS, out="kS")
                x = g.raw(rnd.choice([1, 16, 32, 33, 100]))
                y = g.raw(rnd.choice([1, 32, 64]))
                for variant in ("info=pskid", "info=psk", "psk=pskid", "all_equal", "aad=info", "self_addressed", "eph=identity", "eph=recipient"):
                    info, psk, pskid, aad, rng = g.raw(7), x, y, g.raw(5), g.raw(nsk)
                    ks = "kS"
                    if variant == "info=pskid":
                        info = pskid
                    elif variant == "info=psk":
                        info = psk
                    elif variant == "psk=pskid":
                        pskid = psk
                    elif variant == "all_equal":
                        info = pskid = aad = psk
                    elif variant == "aad=info":
                        aad = info
                    elif variant == "self_addressed":
                        ks = "kR"
                    elif variant == "eph=identity":
                        rng = ikmS
                    elif variant == "eph=recipient":
                        rng = ikmR
                    pa = dict(psk=psk, pskid=pskid) if mode in (1, 3) else {}
                    sa = dict(sks="$%s.sk" % ks, pks="$%s.pk" % ks, **pa) if mode in (2, 3) else dict(pa)
                    ra = dict(pks="$%s.pk" % ks, **pa) if mode in (2, 3) else dict(pa)
                    s.call("setup_s", mode=mode, pkr="$kR.pk", info=info, rng=rng.hex() + "aa" * 8, out="S", alias=variant, **sa)
                    s.call("setup_r", mode=mode, skr="$kR.sk", enc="$S.enc", info=info, out="R", alias=variant, **ra)
                    if aead != 0xFFFF:
                        s.call("seal", ctx="S", api="alloc", pt=aad, aad=aad, out="m")
                        s.call("open", ctx="R", api="alloc", ct="$m.full", aad=aad)
                    s.call("export", ctx="S", exctx=info, len=32)
                    s.call("export", ctx="R", exctx=info, len=32)
                # the recipient's own public key presented as encapsulated key (it is a valid enc)
                s.call("setup_r", mode=0, skr="$kR.sk", enc="$kR.pk", info="-", out="Rself", alias="enc=pkR")
                s.call("export", ctx="Rself", exctx="-", len=32)
    return cw.text()


def sweep_sessions(env, top, step_setup):
    """Every length 0..top of the exporter context (cheap), and every step_setup-th length of info, psk_id,
    psk and aad - fixed-size scratch buffers somewhere between a few hundred bytes and a few KiB are where
    'assemble it on the stack' refactorings go wrong at exactly one length."""
    g = gen.G(env.rnd)
    cw = cl.CaseW()
    for i, kdf in enumerate(gen.KDFS):
        s = cw.session(0x0020, kdf, [1, 3, 0xFFFF][i], sid="iW%d" % kdf)
        gen.add_pair(s, g, 0x0020, 1, psk="@z:70:40", pskid="@z:69:9", rng=g.raw(32).hex() + "aa" * 8)
        for L in range(0, top + 1):
            s.call("export", ctx="S" if L & 1 else "R", exctx="@r:%d:%d" % (1000 + L, L), len=32)
        off = env.rnd.randrange(step_setup)
        for L in sorted(set(list(range(off, top + 1, step_setup)) + [255, 256, 257, 490, 491, 492, 511, 512, 513, 1003, 1004, 1023, 1024, 1025, 2047, 2048, 2049])):
            if L > top:
                continue
            blob = "@r:%d:%d" % (5000 + L, L)
            s.call("setup_s", mode=1, pkr="$kR.pk", info=blob, psk="@z:70:40", pskid="@z:69:9", rng=g.raw(32).hex() + "aa" * 8, out="X")
            s.call("export", ctx="X", exctx="-", len=16)
            if L:
                s.call("setup_s", mode=1, pkr="$kR.pk", info="-", psk="@z:70:40", pskid=blob, rng=g.raw(32).hex() + "aa" * 8, out="X")
                s.call("export", ctx="X", exctx="-", len=16)
                s.call("setup_s", mode=1, pkr="$kR.pk", info="-", psk=blob, pskid="@z:69:9", rng=g.raw(32).hex() + "aa" * 8, out="X")
                s.call("export", ctx="X", exctx="-", len=16)
            if s.ids[2] != 0xFFFF:
                s.call("seal", ctx="X", api="inplace", pt="00", aad=blob)
    return cw.text()


def monitor_all(sess, extra):
    """like monitor, but every operation of the session is compared (long histories)"""
    return monitor(sess, "all")


def long_sessions(env, n):
    cw = cl.CaseW()
    g = gen.G(env.rnd)
    for i, aead in enumerate(gen.SEAL_AEADS):
        s = cw.session(0x0020, gen.KDFS[i], aead, sid="iL%d" % i)
        gen.add_pair(s, g, 0x0020, i % 4 if i % 4 in (0, 1) else 0, rng=g.raw(32).hex() + "aa" * 8)
        for j in range(n):
            api = "inplace" if j & 1 else "alloc"
            s.call("seal", ctx="S", api=api, pt="%06x" % j, aad="-", out="m")
            if j % 64 in (0, 63) or j < 4:
                if api == "alloc":
                    s.call("open", ctx="R", api="alloc", ct="$m.full", aad="-")
                else:
                    s.call("open", ctx="R", api="inplace", ct="$m.ct", tag="$m.tag", aad="-")
            elif j % 64 == 62:
                # bring the receiver to the sender's position without opening every message
                s.call("set_seq", ctx="R", seq=j + 1)
    return cw.text()


MONITORS = {"impl-sender": monitor, "ref-sender": monitor, "long": monitor_all}


def run(env):
    per_cell, nmsgs = env.pick((3, 8), (30, 60))
    for direction in ("impl", "ref"):
        text = generate(env, direction, per_cell, nmsgs)
        for build in ("checked", "fast"):
            # "fast" = what a user ships: code that only runs inside debug_assert! is gone there
            res = env.drive(direction, text, build=build)
            env.require_complete(res, direction + "/" + build)
            env.pmap(monitor, res.sessions, workload="%s-sender" % direction)
        env.extra_cov["sessions_%s" % direction] = len(res.sessions)
    for name, text in (("alias", aliasing_sessions(env, env.pick(1, 6))), ("sweep", sweep_sessions(env, *env.pick((2200, 29), (4200, 7))))):
        res = env.drive(name, text)
        env.require_complete(res, name)
        env.pmap(monitor_all, res.sessions, workload="long")
    # other code generation settings and conjunctions of them: two mixed builds every time (no-alloc + panic=abort + opt-level
    # s + native CPU; std + panic=abort + opt-level z, no debug assertions); thorough: single-axis variations and the
    # pairwise covering set of lib/framework.py
    from props.c13 import slice_text
    mtext = slice_text(generate(env, "impl", 1, 4), env.seed % 2, 8 if env.quick() else 2)
    # a KEM plugged in through the public `Kem` trait whose sizes (96 bytes each) exceed every built-in one's
    # (harness/src/mockkem.rs; ref/hpke_ref.py ToyKem): the generic code around the KEM must not assume Nsecret <= 64 etc.
    for direction in ("impl", "ref"):
        ttext = generate(env, direction, env.pick(2, 12), 4, suites=TOY_SUITES)
        rt = env.drive("mock-kem-" + direction, ttext)
        env.require_complete(rt, "mock-kem-" + direction)
        mrt = env.pmap(monitor, rt.sessions, workload="impl-sender" if direction == "impl" else "ref-sender")
        env.extra_cov["mock_kem_ops_%s" % direction] = mrt.counts["evaluations"]
    blist = ["mix-noalloc-abort-s-native", "mix-std-abort-z", "cfg-fuzzing", "noprobe"]
    if not env.quick():
        blist += ["opt0", "opt1", "opts", "optz", "native"] + fw.pairwise_builds()
    for b in blist:
        rb = env.drive("matrix", mtext, build=b)
        env.require_complete(rb, "matrix/" + (b if isinstance(b, str) else b.name))
        env.pmap(monitor, rb.sessions, workload="impl-sender")
    if not env.quick():
        # info / psk / psk_id / exporter context / ikm of 2^32+5 bytes against the reference
        from lib import giant

        def judge(env, sess, op, big):
            e = giant.expected(sess, op, big)
            bad = [k for k, v in e.items() if k in op.ret and op.ret[k] != cl.outenc(v)]
            if "r_exp" in op.ret and op.ret["r_exp"] != cl.outenc(e["s_exp"]):
                bad.append("r_exp")
            if bad:
                env.violation("C02:giant:%s:%s" % (op.args["which"], bad[0]), "with a %s of 2^32+5 bytes %s differ(s) from RFC 9180: got %s" % (
                    op.args["which"], bad, {k: op.ret.get(k, "")[:32] for k in bad}), case_text=sess.case_text(op.id), workload="giant-strings")
        giant.run(env, "C02", ["info", "psk", "pskid", "exctx", "ikm"], [(0x0020, 1, 1)], judge)
        giant.run(env, "C02", ["info"], [(0x0012, 3, 3)], judge)
    text = long_sessions(env, env.pick(300, 70000))
    res = env.drive("long", text)
    env.require_complete(res, "long")
    env.pmap(monitor_all, res.sessions, workload="long")
    cells = {(d[0], d[1], d[2]) for d in env.distinct}
    env.extra_cov["direction_suite_mode_cells"] = len(cells)
    if len(cells) < 2 * 192 and not env.violations:
        raise fw.Inconclusive("only %d of 384 (direction, suite, mode) cells compared" % len(cells))


def replay(env, path):
    import props.c02 as me
    fw.generic_replay(env, me, path)
