"""C14 - single-shot and in-place interfaces are equivalent to the composed operations.
Differential monitor: the same scripted RNG bytes and inputs are given to both forms inside one
session and the complete observable results (enc, ciphertext, tag, plaintext, error) are compared."""
import re

from lib import caselang as cl
from lib import framework as fw
from lib import gen
from ref import curves

RULE = ("one case = one pair of calls (single-shot vs composed, or allocating vs in-place on twin contexts) with identical "
        "inputs whose results are compared field by field; distinct = distinct (kem, aead, mode, comparison kind, path) "
        "combinations, path being success or the specific failure")
ASSUMPTIONS = ["twin contexts are obtained by running setup twice with the same scripted RNG bytes; if the twins' enc differ the pair is inconclusive (C02/C18 report that)"]


def build(env, per_cell):
    g = gen.G(env.rnd)
    rnd = env.rnd
    cw = cl.CaseW()
    for (kem, kdf, aead) in gen.suites() + [(k, d, 0xFFFF) for k in gen.KEMS for d in gen.KDFS[: (1 if per_cell == 1 else 3)]]:
        for mode in gen.MODES:
            if aead == 0xFFFF:
                export_only_session(cw, g, rnd, kem, kdf, mode)
                if kdf in (1, 3):
                    failing_seal_session(cw, g, rnd, kem, kdf, mode)
                continue
            for j in range(per_cell):
                s = cw.session(kem, kdf, aead, sid="q%d" % len(cw.sessions))
                nsk = gen.nsk(kem)
                gen.add_keys(s, g, kem, "kR")
                gen.add_keys(s, g, kem, "kS")
                gen.add_keys(s, g, kem, "kX")
                psk, pskid = g.rbytes(rnd.choice([1, 32, 100])), g.rbytes(rnd.choice([1, 9]))
                if j == per_cell - 1 and (kdf + aead) % 2 == 1:
                    psk = pskid = "-"  # the empty bundle is accepted by the composed calls; single-shot must agree
                mism_pair = rnd.random() < 0.25 and mode in (2, 3)
                pa = dict(psk=psk, pskid=pskid) if mode in (1, 3) else {}
                sa = dict(sks="$kS.sk", pks="$kX.pk" if mism_pair else "$kS.pk", **pa) if mode in (2, 3) else dict(pa)
                ra = dict(pks="$kS.pk", **pa) if mode in (2, 3) else dict(pa)
                info = g.blob(gen.LEN_SMALL, maxrand=100)
                rng = g.rbytes(nsk)
                p = [0]

                def pid():
                    p[0] += 1
                    return p[0]

                # ---- single-shot seal vs composed, success, both API forms
                for api in ("alloc", "inplace"):
                    pt, aad = g.blob(gen.LEN_SMALL + [4096], maxrand=300), g.blob(gen.LEN_SMALL, maxrand=60)
                    k = pid()
                    s.call("ss_seal", mode=mode, pkr="$kR.pk", info=info, pt=pt, aad=aad, rng=rng, api=api, out="ss%d" % k, pair=k, side="a", cmp="ss_seal", **sa)
                    s.call("setup_s", mode=mode, pkr="$kR.pk", info=info, rng=rng, out="C%d" % k, **sa)
                    s.call("seal", ctx="C%d" % k, api=api, pt=pt, aad=aad, out="cm%d" % k, pair=k, side="b", cmp="ss_seal", encfrom="C%d" % k)
                    # ---- single-shot open vs composed, success
                    k2 = pid()
                    oa = dict(ct="$ss%d.full" % k) if api == "alloc" else dict(ct="$ss%d.ct" % k, tag="$ss%d.tag" % k)
                    s.call("ss_open", mode=mode, skr="$kR.sk", enc="$ss%d.enc" % k, info=info, aad=aad, api=api, pair=k2, side="a", cmp="ss_open", **oa, **ra)
                    s.call("setup_r", mode=mode, skr="$kR.sk", enc="$ss%d.enc" % k, info=info, out="D%d" % k2, **ra)
                    s.call("open", ctx="D%d" % k2, api=api, aad=aad, pair=k2, side="b", cmp="ss_open", **oa)
                    # ---- failure paths of single-shot open
                    fails = [
                        ("wrong_aad", dict(oa), dict(aad=aad + "^app:00" if aad != "-" else "00")),
                        ("wrong_info", dict(oa), dict(info=info + "^app:01" if info != "-" else "01")),
                        ("wrong_key", dict(oa), dict(skr="$kX.sk")),
                    ]
                    if api == "alloc":
                        for L in rnd.sample(range(0, 16), 3):
                            fails.append(("short_%d" % L, dict(ct="$ss%d.full^trunc:%d" % (k, L)), {}))
                        fails.append(("flipped", dict(ct="$ss%d.full^flip:%d" % (k, rnd.randrange(0, 128))), {}))
                    else:
                        fails.append(("flipped_tag", dict(ct=oa["ct"], tag=oa["tag"] + "^flip:%d" % rnd.randrange(0, 128)), {}))
                        fails.append(("short_tag", dict(ct=oa["ct"], tag=oa["tag"] + "^trunc:%d" % rnd.randrange(0, 16)), {}))
                    if kem == 0x0020:
                        bad_enc = rnd.choice(curves.X25519_SMALL_ORDER).hex()
                        fails.append(("small_order_enc", dict(oa), dict(enc=bad_enc)))
                    else:
                        bad_enc = "$ss%d.enc^flip:9" % k
                        fails.append(("invalid_enc", dict(oa), dict(enc=bad_enc)))
                    # two causes of failure at once: which one wins must not depend on the form
                    if api == "alloc":
                        for L in (0, rnd.randrange(1, 16)):
                            fails.append(("bad_enc_and_short_%d" % L, dict(ct="$ss%d.full^trunc:%d" % (k, L)), dict(enc=bad_enc)))
                        fails.append(("wrong_key_and_short", dict(ct="$ss%d.full^trunc:%d" % (k, rnd.randrange(0, 16))), dict(skr="$kX.sk")))
                    else:
                        fails.append(("bad_enc_and_flipped_tag", dict(ct=oa["ct"], tag=oa["tag"] + "^flip:5"), dict(enc=bad_enc)))
                    fails.append(("bad_enc_and_wrong_aad", dict(oa), dict(enc=bad_enc, aad="ffee")))
                    for name, oargs, chg in fails:
                        k3 = pid()
                        base = dict(mode=mode, skr="$kR.sk", enc="$ss%d.enc" % k, info=info)
                        aad_f = chg.pop("aad", aad)
                        base.update(chg)
                        s.call("ss_open", aad=aad_f, api=api, pair=k3, side="a", cmp="ss_open", path=name, **base, **oargs, **ra)
                        s.call("setup_r", out="F%d" % k3, pair=k3, side="b0", cmp="ss_open", path=name, **base, **ra)
                        s.call("open", ctx="F%d" % k3, api=api, aad=aad_f, pair=k3, side="b", cmp="ss_open", path=name, **oargs)
                # ---- failure path of single-shot seal: small-order / invalid recipient key
                if kem == 0x0020:
                    bad = rnd.choice(curves.X25519_SMALL_ORDER).hex()
                    k = pid()
                    api = rnd.choice(["alloc", "inplace"])
                    s.call("ss_seal", mode=mode, pkr=bad, info=info, pt="0102", aad="-", rng=rng, api=api, pair=k, side="a", cmp="ss_seal", path="small_order_pkR", **sa)
                    s.call("setup_s", mode=mode, pkr=bad, info=info, rng=rng, out="Z%d" % k, pair=k, side="b", cmp="ss_seal", path="small_order_pkR", **sa)
                # ---- allocating vs in-place on twin contexts
                s.call("setup_s", mode=mode, pkr="$kR.pk", info=info, rng=rng, out="T1", **sa)
                s.call("setup_s", mode=mode, pkr="$kR.pk", info=info, rng=rng, out="T2", **sa)
                s.call("setup_r", mode=mode, skr="$kR.sk", enc="$T1.enc", info=info, out="U1", **ra)
                s.call("setup_r", mode=mode, skr="$kR.sk", enc="$T2.enc", info=info, out="U2", **ra)
                for i in range(rnd.choice([1, 3, 6])):
                    ptlen = g.length(gen.LEN_SMALL + [65536], maxrand=400, extra_random=0.5)
                    pt, aad = g.rbytes(ptlen), g.blob(gen.LEN_SMALL, maxrand=40)
                    k = pid()
                    s.call("seal", ctx="T1", api="alloc", pt=pt, aad=aad, out="ta%d" % k, pair=k, side="a", cmp="seal_forms")
                    s.call("seal", ctx="T2", api="inplace", pt=pt, aad=aad, out="tb%d" % k, pair=k, side="b", cmp="seal_forms")
                    # a rejected delivery first (the same split for both forms), then the genuine one
                    name = rnd.choice(["flip", "wrong_aad"])
                    full_t = ct_t = tag_t = ""
                    aad_v = aad
                    if name == "flip":
                        bit = rnd.randrange(0, 8 * (ptlen + 16))
                        full_t = "^flip:%d" % bit
                        if bit < 8 * ptlen:
                            ct_t = "^flip:%d" % bit
                        else:
                            tag_t = "^flip:%d" % (bit - 8 * ptlen)
                    else:
                        aad_v = aad + "^app:ff" if aad != "-" else "ff"
                    k2 = pid()
                    s.call("open", ctx="U1", api="alloc", ct="$ta%d.full%s" % (k, full_t), aad=aad_v, pair=k2, side="a", cmp="open_forms", path=name)
                    s.call("open", ctx="U2", api="inplace", ct="$tb%d.ct%s" % (k, ct_t), tag="$tb%d.tag%s" % (k, tag_t), aad=aad_v, pair=k2, side="b", cmp="open_forms", path=name)
                    k3 = pid()
                    s.call("open", ctx="U1", api="alloc", ct="$ta%d.full" % k, aad=aad, pair=k3, side="a", cmp="open_forms", path="genuine")
                    s.call("open", ctx="U2", api="inplace", ct="$tb%d.ct" % k, tag="$tb%d.tag" % k, aad=aad, pair=k3, side="b", cmp="open_forms", path="genuine")
    return cw


MOCK_AEADS = (0x7777, 0x7778, 0x777A, 0x7779, 0x777B, 0x777C)
_mock_ix = __import__("itertools").count()


def failing_seal_session(cw, g, rnd, kem, kdf, mode):
    """The built-in AEADs only fail beyond 2^36 bytes; the mock AEAD of harness/src/probe.rs (public Aead trait, id 0x7777)
    fails on request.  A seal that fails must be reported the same way by the single-shot form and by setup + seal."""
    s = cw.session(kem, kdf, MOCK_AEADS[next(_mock_ix) % len(MOCK_AEADS)], sid="q%d" % len(cw.sessions))
    nsk = gen.nsk(kem)
    gen.add_keys(s, g, kem, "kR")
    gen.add_keys(s, g, kem, "kS")
    pa = dict(psk=g.rbytes(32), pskid=g.rbytes(4)) if mode in (1, 3) else {}
    sa = dict(sks="$kS.sk", pks="$kS.pk", **pa) if mode in (2, 3) else dict(pa)
    rng = g.rbytes(nsk)
    k = 0
    # the two forms of seal on twin contexts (tags of 16, 20 and 32 bytes, nonces of 8 to 24 bytes)
    s.call("probe_ctl", fail_seal=0)
    s.call("setup_s", mode=mode, pkr="$kR.pk", info="6162", rng=rng, out="T1", **sa)
    s.call("setup_s", mode=mode, pkr="$kR.pk", info="6162", rng=rng, out="T2", **sa)
    for j in range(2):
        k += 1
        pt, aad = g.rbytes(rnd.choice([0, 1, 17])), g.rbytes(rnd.choice([0, 3]))
        s.call("seal", ctx="T1", api="alloc", pt=pt, aad=aad, pair=k, side="a", cmp="seal_forms", path="mock_aead")
        s.call("seal", ctx="T2", api="inplace", pt=pt, aad=aad, pair=k, side="b", cmp="seal_forms", path="mock_aead")
    for api in ("alloc", "inplace"):
        for fail in (1, 0):
            k += 1
            path = "failing_seal" if fail else "mock_aead"
            s.call("probe_ctl", fail_seal=fail)
            s.call("ss_seal", mode=mode, pkr="$kR.pk", info="6162", pt="01020304", aad="05", rng=rng, api=api, pair=k, side="a", cmp="ss_seal", path=path, **sa)
            s.call("probe_ctl", fail_seal=0)
            s.call("setup_s", mode=mode, pkr="$kR.pk", info="6162", rng=rng, out="C%d" % k, **sa)
            s.call("probe_ctl", fail_seal=fail)
            s.call("seal", ctx="C%d" % k, api=api, pt="01020304", aad="05", pair=k, side="b", cmp="ss_seal", path=path, encfrom="C%d" % k)
            s.call("probe_ctl", fail_seal=0)


def export_only_session(cw, g, rnd, kem, kdf, mode):
    """single-shot vs composed on an export-only suite: both must behave the same (panic alike, fail alike)"""
    s = cw.session(kem, kdf, 0xFFFF, sid="q%d" % len(cw.sessions))
    nsk = gen.nsk(kem)
    gen.add_keys(s, g, kem, "kR")
    gen.add_keys(s, g, kem, "kS")
    pa = dict(psk=g.rbytes(32), pskid=g.rbytes(4)) if mode in (1, 3) else {}
    sa = dict(sks="$kS.sk", pks="$kS.pk", **pa) if mode in (2, 3) else dict(pa)
    ra = dict(pks="$kS.pk", **pa) if mode in (2, 3) else dict(pa)
    rng = g.rbytes(nsk)
    k = 0
    for api in ("alloc", "inplace"):
        k += 1
        s.call("ss_seal", mode=mode, pkr="$kR.pk", info="-", pt="0102", aad="-", rng=rng, api=api, pair=k, side="a", cmp="ss_seal", path="export_only", **sa)
        s.call("setup_s", mode=mode, pkr="$kR.pk", info="-", rng=rng, out="C%d" % k, **sa)
        s.call("seal", ctx="C%d" % k, api=api, pt="0102", aad="-", pair=k, side="b", cmp="ss_seal", path="export_only", encfrom="C%d" % k)
        k += 1
        oa = dict(ct="00" * 20) if api == "alloc" else dict(ct="00" * 4, tag="-")
        s.call("ss_open", mode=mode, skr="$kR.sk", enc="$C%d.enc" % (k - 1), info="-", aad="-", api=api, pair=k, side="a", cmp="ss_open", path="export_only", **oa, **ra)
        s.call("setup_r", mode=mode, skr="$kR.sk", enc="$C%d.enc" % (k - 1), info="-", out="D%d" % k, **ra)
        s.call("open", ctx="D%d" % k, api=api, aad="-", pair=k, side="b", cmp="ss_open", path="export_only", **oa)
    if kem == 0x0020:
        bad = rnd.choice(curves.X25519_SMALL_ORDER).hex()
        k += 1
        s.call("ss_seal", mode=mode, pkr=bad, info="-", pt="0102", aad="-", rng=rng, api="inplace", pair=k, side="a", cmp="ss_seal", path="export_only_small_order", **sa)
        s.call("setup_s", mode=mode, pkr=bad, info="-", rng=rng, out="Z%d" % k, pair=k, side="b", cmp="ss_seal", path="export_only_small_order", **sa)
        k += 1
        s.call("ss_open", mode=mode, skr="$kR.sk", enc=bad, info="-", ct="00", tag="-", aad="-", api="inplace", pair=k, side="a", cmp="ss_open", path="export_only_small_order", **ra)
        s.call("setup_r", mode=mode, skr="$kR.sk", enc=bad, info="-", out="F%d" % k, pair=k, side="b0", cmp="ss_open", path="export_only_small_order", **ra)


def _panic_kind(o):
    """panics are compared by their message, not by file:line"""
    return o.split("_@")[0] if o.startswith("panic=") else o


def norm_seal(op, sess, encs):
    """(enc, ct, tag) or error string"""
    if op.ret is None:
        return "NORETURN"
    if not op.ok():
        return op.outcome()
    nt = sess.nt()
    if "full" in op.ret:
        full = op.out("full")
        ct, tag = full[: len(full) - nt], full[len(full) - nt:]
    else:
        ct, tag = op.out("ct"), op.out("tag")
    enc = op.ret.get("enc") or encs.get(op.args.get("encfrom"))
    return (enc, ct, tag)


def monitor(sess, extra):
    r = fw.MonResult()
    pairs = {}
    encs = {}
    setup_err = {}
    mode = "?"
    for op in sess.ops:
        if op.ret is None:
            r.violation("C14:noreturn:%s" % op.op, "%s never returned" % op.id, sess, op)
            return r
        if op.op == "setup_s":
            mode = op.args.get("mode", mode)
            if op.ok():
                encs[op.args["out"]] = op.ret["enc"]
        if "pair" in op.args:
            pairs.setdefault(op.args["pair"], {})[op.args["side"]] = op
    for k, d in pairs.items():
        a, b = d.get("a"), d.get("b")
        if a is not None and b is None and d.get("b0") is not None and not d["b0"].ok():
            b = d["b0"]  # the composed form already failed in setup; its open never ran
        if a is None or b is None:
            continue
        cmpk = a.args["cmp"]
        path = a.args.get("path", "success")
        r.counts["evaluations"] += 1
        if cmpk == "ss_seal":
            if b.op == "setup_s":
                # failure path: the composed form fails in setup already
                va, vb = a.outcome(), b.outcome()
            else:
                va, vb = norm_seal(a, sess, encs), norm_seal(b, sess, encs)
            if isinstance(va, str) and isinstance(vb, str):
                va, vb = _panic_kind(va), _panic_kind(vb)
            if va != vb:
                r.violation("C14:ss_seal:%s" % path, "single_shot_seal%s differs from setup_sender + seal with the same RNG bytes: %s vs %s" % (
                    "_in_place_detached" if a.args.get("api") == "inplace" else "", _short(va), _short(vb)), sess, a)
                continue
        elif cmpk == "ss_open":
            vb = _panic_kind(b.outcome())
            va = _panic_kind(a.outcome())
            if a.ok() and b.ok():
                va, vb = a.ret.get("pt"), b.ret.get("pt")
            elif va == vb and not va.startswith("panic") and "buf" in a.ret and "buf" in b.ret and a.ret["buf"] != b.ret["buf"]:
                va, vb = "buffer after failure " + a.ret["buf"][:40], "buffer after failure " + b.ret["buf"][:40]
            if va != vb:
                r.violation("C14:ss_open:%s" % re.sub(r"_\d+$", "", path), "single_shot_open%s differs from setup_receiver + open (%s path): %s vs %s" % (
                    "_in_place_detached" if a.args.get("api") == "inplace" else "", path, _short(va), _short(vb)), sess, a)
                continue
        elif cmpk == "seal_forms":
            va, vb = norm_seal(a, sess, encs), norm_seal(b, sess, encs)
            if isinstance(va, tuple) and isinstance(vb, tuple):
                va, vb = va[1:], vb[1:]
            if va != vb:
                r.violation("C14:seal_forms", "seal() output differs from seal_in_place_detached() ciphertext || tag on twin contexts", sess, a)
                continue
        elif cmpk == "open_forms":
            va, vb = a.outcome(), b.outcome()
            if a.ok() and b.ok():
                va, vb = a.ret.get("pt"), b.ret.get("pt")
            # the rejected variant given to open() is rebuilt by the generator from the same transforms
            if va != vb:
                r.violation("C14:open_forms:%s" % path, "open() and open_in_place_detached() disagree on the same split (%s): %s vs %s" % (path, _short(va), _short(vb)), sess, a)
                continue
        ok = a.ok()
        r.distinct.add((sess.ids[0], sess.ids[2], mode, cmpk, re.sub(r"_\d+$", "", path), a.args.get("api")))
        r.counts["cmp:%s:%s" % (cmpk, "success" if ok else "failure")] += 1
    if pairs and not r.samples:
        d = pairs[sorted(pairs)[0]]
        r.samples.append({"session": sess.header, "a": d["a"].raw[:200], "b": d.get("b").raw[:160] if d.get("b") else None, "a_result": d["a"].outcome()})
    return r


def _short(v):
    s = str(v)
    return s if len(s) < 160 else s[:160] + "…"


MONITORS = {"equiv": monitor}


def run(env):
    cw = build(env, env.pick(1, 8))
    res = env.drive("equiv", cw.text())
    env.require_complete(res, "equiv")
    mr = env.pmap(monitor, res.sessions, workload="equiv")
    need = ["cmp:ss_seal:success", "cmp:ss_seal:failure", "cmp:ss_open:success", "cmp:ss_open:failure", "cmp:seal_forms:success", "cmp:open_forms:success", "cmp:open_forms:failure"]
    missing = [k for k in need if mr.counts[k] < 10]
    if missing and not env.violations:
        raise fw.Inconclusive("comparisons not exercised: %s" % missing)


def replay(env, path):
    import props.c14 as me
    fw.generic_replay(env, me, path)
