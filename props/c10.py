"""C10 - X25519: an all-zero Diffie-Hellman result aborts setup (EncapError on the sending side,
DecapError on the receiving side), for every small-order encoding in every role, mode and entry
point; keys that are not of small order are never rejected."""
from lib import caselang as cl
from lib import framework as fw
from lib import gen
from ref import curves

RULE = ("one case = one setup/encap/decap/single-shot call with a chosen 32-byte string in the role of recipient key, "
        "encapsulated key or expected sender key; the reference X25519 ladder decides whether the DH value is zero; "
        "distinct = distinct (role, mode, entry point, small-order?) combinations and distinct hostile encodings; the 14 "
        "small-order encodings x roles x modes x entry points are enumerated exhaustively")
ASSUMPTIONS = ["RFC 7748 ladder on Python integers as oracle; the 14-entry table is re-derived (must yield zero) in the self-test"]

KEM = 0x0020


def neighbours():
    out = []
    for e in curves.X25519_SMALL_ORDER:
        v = int.from_bytes(e, "little")
        for d in (-2, -1, 1, 2):
            w = (v + d) % (1 << 256)
            out.append(w.to_bytes(32, "little"))
    return out


def build(env, nsk_per_cell, nneg):
    g = gen.G(env.rnd)
    rnd = env.rnd
    cw = cl.CaseW()
    points = [("small", p) for p in curves.X25519_SMALL_ORDER]
    base_pt = (9).to_bytes(32, "little")
    negs = [("base_point", base_pt), ("base_point", base_pt[:31] + b"\x80")] + [("neighbour", p) for p in neighbours()] + [("random", g.raw(32)) for _ in range(nneg)]
    n = 0
    for cls, pt in points * nsk_per_cell + negs:
        aead = gen.ALL_AEADS[n % 4]
        kdf = gen.KDFS[n % 3]
        s = cw.session(KEM, kdf, aead, sid="z%d" % n)
        n += 1
        gen.add_keys(s, g, KEM, "kR")
        gen.add_keys(s, g, KEM, "kS")
        psk, pskid = g.raw(32), g.raw(4)
        full = cls == "small" or rnd.random() < 0.15
        modes = gen.MODES if full else [rnd.choice(gen.MODES)]
        for mode in modes:
            pa = dict(psk=psk, pskid=pskid) if mode in (1, 3) else {}
            sa = dict(sks="$kS.sk", pks="$kS.pk") if mode in (2, 3) else {}
            ra = dict(pks="$kS.pk") if mode in (2, 3) else {}
            # role: recipient public key (sending side)
            s.call("setup_s", mode=mode, pkr=pt, info="-", rng=g.rbytes(32), out="S%d" % mode, role="pkR", cls=cls, **pa, **sa)
            if aead != 0xFFFF:
                for api in ("alloc", "inplace"):
                    s.call("ss_seal", mode=mode, pkr=pt, info="-", pt="0011", aad="-", rng=g.rbytes(32), api=api, role="pkR", cls=cls, **pa, **sa)
            # role: encapsulated key (receiving side)
            s.call("setup_r", mode=mode, skr="$kR.sk", enc=pt, info="-", out="R%d" % mode, role="enc", cls=cls, **pa, **ra)
            if aead != 0xFFFF:
                s.call("ss_open", mode=mode, skr="$kR.sk", enc=pt, info="-", ct="00" * 20, aad="-", api="alloc", role="enc", cls=cls, **pa, **ra)
                s.call("ss_open", mode=mode, skr="$kR.sk", enc=pt, info="-", ct="00" * 4, tag="00" * 16, aad="-", api="inplace", role="enc", cls=cls, **pa, **ra)
            # role: expected sender identity key (receiving side, authenticated modes)
            if mode in (2, 3):
                s.call("setup_s", mode=0, pkr="$kR.pk", info="-", rng=g.rbytes(32), out="H")
                s.call("setup_r", mode=mode, skr="$kR.sk", enc="$H.enc", info="-", out="Q%d" % mode, role="pkS", cls=cls, pks=pt, **pa)
                if aead != 0xFFFF:
                    s.call("ss_open", mode=mode, skr="$kR.sk", enc="$H.enc", info="-", ct="00" * 20, aad="-", api="alloc", role="pkS", cls=cls, pks=pt, **pa)
        # KEM level
        s.call("encap", pkr=pt, rng=g.rbytes(32), role="pkR", cls=cls)
        s.call("encap", pkr=pt, sks="$kS.sk", pks="$kS.pk", rng=g.rbytes(32), role="pkR", cls=cls)
        s.call("decap", skr="$kR.sk", enc=pt, role="enc", cls=cls)
        s.call("decap", skr="$kR.sk", enc=pt, pks="$kS.pk", role="enc", cls=cls)
        s.call("encap", pkr="$kR.pk", rng=g.rbytes(32), out="he")
        s.call("decap", skr="$kR.sk", enc="$he.enc", pks=pt, role="pkS", cls=cls)
    return cw


PROBE = bytes(range(1, 33))


def monitor(sess, extra):
    r = fw.MonResult()
    for op in sess.ops:
        role = op.args.get("role")
        if role is None:
            continue
        if op.ret is None:
            r.violation("C10:noreturn:%s" % op.op, "%s never returned" % op.id, sess, op)
            break
        point = op.b["pkr"] if role == "pkR" else op.b["enc"] if role == "enc" else op.b["pks"]
        zero = curves.x25519(PROBE, point) == b"\x00" * 32
        sending = op.op in ("setup_s", "ss_seal", "encap")
        want_err = "EncapError" if sending else "DecapError"
        mode = op.args.get("mode", "kem")
        r.counts["evaluations"] += 1
        if zero:
            if op.err() != want_err:
                r.violation("C10:not_rejected:%s:%s" % (role, op.op),
                            "%s with the small-order encoding %s as %s (mode %s) returned %s instead of %s"
                            % (op.op, point.hex(), {"pkR": "recipient key", "enc": "encapsulated key", "pkS": "expected sender key"}[role], mode, op.outcome(), want_err), sess, op)
                continue
            r.counts["rejected_small_order"] += 1
        else:
            # must not be rejected by the KEM; single-shot opens of junk ciphertext then fail with OpenError, which is fine
            bad = op.err() in ("EncapError", "DecapError") or (op.err() or "").startswith("ValidationError")
            if bad:
                r.violation("C10:rejected_good_key:%s:%s" % (role, op.op),
                            "%s rejected %s (not a small-order point; reference DH is non-zero) as %s with %s" % (op.op, point.hex(), role, op.outcome()), sess, op)
                continue
            if op.panic() and sess.ids[2] != 0xFFFF:
                r.violation("C10:panic:%s" % op.op, "%s panicked: %s" % (op.op, op.panic()), sess, op)
                continue
            r.counts["accepted_other"] += 1
        r.distinct.add((role, mode, op.op + ":" + op.args.get("api", ""), zero))
        r.distinct.add(("zero_encoding", point.hex()) if zero else ("negative_class", op.args.get("cls")))
    ops = [o for o in sess.ops if o.args.get("cls") == "small"]
    if ops and not r.samples:
        o = ops[0]
        r.samples.append({"session": sess.header, "call": o.raw[:220], "result": o.outcome()})
    return r


def build_structured(env, reps):
    """Keys that are NOT of small order but whose Diffie-Hellman value with the session's private key has many
    zero bytes (a partial zero check would reject them).  Constructed with the reference ladder."""
    import random
    from lib import directed
    from ref import hpke_ref as R
    g = gen.G(env.rnd)
    k = R.KEMS[KEM]
    cw = cl.CaseW()
    for r in range(reps):
        ikmR, rngE = g.raw(32), g.raw(32)
        skR, _ = k.derive_key_pair(ikmR)
        skE, _ = k.derive_key_pair(rngE)
        s = cw.session(KEM, gen.KDFS[r % 3], gen.ALL_AEADS[r % 4], sid="y%d" % r)
        s.call("derive_keypair", ikm=ikmR, out="kR")
        gen.add_keys(s, g, KEM, "kS")
        for name, enc, out in directed.x25519_structured_outputs(random.Random(env.rnd.getrandbits(32)), skR):
            cls = "structured:" + name
            s.call("setup_r", mode=0, skr="$kR.sk", enc=enc, info="-", out="R", role="enc", cls=cls)
            s.call("decap", skr="$kR.sk", enc=enc, role="enc", cls=cls)
            s.call("setup_r", mode=2, skr="$kR.sk", enc=enc, info="-", out="R2", role="enc", cls=cls, pks="$kS.pk")
            # ... and as the expected sender key: DH(skR, pkS) is the structured value
            s.call("encap", pkr="$kR.pk", rng=g.rbytes(32), out="he")
            s.call("decap", skr="$kR.sk", enc="$he.enc", pks=enc, role="pkS", cls=cls)
        for name, pk, out in directed.x25519_structured_outputs(random.Random(env.rnd.getrandbits(32)), skE):
            cls = "structured:" + name
            s.call("setup_s", mode=0, pkr=pk, info="-", rng=rngE.hex() + "aa" * 8, out="S", role="pkR", cls=cls)
            s.call("encap", pkr=pk, rng=rngE.hex() + "aa" * 8, role="pkR", cls=cls)
        # keys with a tiny u-coordinate (all bytes zero but the first) kept at every address modulo 8: a zero test that
        # looks at the key through aligned wide loads and forgets the unaligned head calls them "all zero"
        for u in (2, 3, 4, 9, 0x80, 0xff):
            tiny = bytes([u]) + bytes(31)
            tail = bytes(31) + bytes([u & 0x7f or 1])
            for off in range(1, 8):
                for pt in (tiny, tail):
                    cls = "tiny_key_at_offset"
                    s.call("setup_s", mode=0, pkr=pt, info="-", rng=g.rbytes(32), out="ST", role="pkR", cls=cls, off=off)
                    s.call("encap", pkr=pt, rng=g.rbytes(32), role="pkR", cls=cls, off=off)
                    s.call("setup_r", mode=0, skr="$kR.sk", enc=pt, info="-", out="RT", role="enc", cls=cls, off=off)
                    s.call("decap", skr="$kR.sk", enc=pt, role="enc", cls=cls, off=off)
        # the clamped scalar 5*l - 1 acts as -1 on the prime-order subgroup: its public key is the base point u = 9 and
        # DH(k, P) has the same u-coordinate as P.  A check "result must differ from the peer's key" refuses every honest peer.
        cls = "special_scalar:minus_one"
        s.call("sk_to_pk", sk=SPECIAL_MINUS_ONE, out="kM")
        s.call("setup_s", mode=0, pkr="$kM.pk", info="-", rng=g.rbytes(32), out="SM", role="pkR", cls=cls)
        s.call("setup_r", mode=0, skr=SPECIAL_MINUS_ONE, enc="$SM.enc", info="-", out="RM", role="enc", cls=cls)
        s.call("decap", skr=SPECIAL_MINUS_ONE, enc="$SM.enc", role="enc", cls=cls)
        s.call("encap", pkr="$kR.pk", sks=SPECIAL_MINUS_ONE, pks="$kM.pk", rng=g.rbytes(32), out="am", role="pkR", cls=cls)
        s.call("decap", skr="$kR.sk", enc="$am.enc", pks="$kM.pk", role="pkS", cls=cls)
    return cw


SPECIAL_MINUS_ONE = "a023cdd083ef5bb82f10d62e59e15a6800000000000000000000000000000050"
MONITORS = {"smallorder": monitor, "structured": monitor}


def run(env):
    per, nneg = env.pick((8, 2000), (200, 100000))
    cw = build(env, per, nneg)
    res = env.drive("smallorder", cw.text())
    env.require_complete(res, "smallorder")
    mr = env.pmap(monitor, res.sessions, workload="smallorder")
    # the zero check under other code generation: native CPU features (compile-time SIMD paths) every time;
    # size-optimised, unoptimised and release builds in the thorough tier
    small = build(env, 1, 200).text()
    for b in env.pick(("native", "cfg-fuzzing"), ("native", "cfg-fuzzing", "opts", "opt0", "fast")):
        rb = env.drive("smallorder", small, build=b)
        env.require_complete(rb, "smallorder/" + b)
        env.pmap(monitor, rb.sessions, workload="smallorder")
    res2 = env.drive("structured", build_structured(env, env.pick(4, 40)).text())
    env.require_complete(res2, "structured")
    env.pmap(monitor, res2.sessions, workload="structured")
    seen = {d[1] for d in env.distinct if d[0] == "zero_encoding"}
    env.extra_cov["small_order_encodings_seen"] = len(seen)
    env.exhaustive = len(seen) == 14
    env.extra_cov["exhaustive_scope"] = "the 14 small-order encodings x {pkR, enc, pkS} x 4 modes x entry points (positive part); negatives are sampled"
    if len(seen) != 14 and not env.violations:
        raise fw.Inconclusive("only %d of 14 small-order encodings reached the code" % len(seen))


def replay(env, path):
    import props.c10 as me
    fw.generic_replay(env, me, path)
