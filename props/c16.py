"""C16 - secrets held by the library are wiped when dropped.

Three monitors, all over the real objects:
  1. shared secret: the SharedSecret returned by Kem::encap/decap is moved into a slot the driver owns, the
     slot's bytes are photographed, the destructor runs in place, the bytes are photographed again;
  2. contexts: same for AeadCtxS/AeadCtxR, searching the slot for the base nonce and exporter secret the
     context itself reports through the hook (must be found before - otherwise the monitor is blind and
     says so - and must be gone after, with zeros at the recorded offsets);
  3. drop ledger (cfg(hpke_verif) hook at the end of the four wiping Drop impls): across every setup the
     temporary AEAD key and the KEM shared secret must have been dropped at least once each and no drop of
     any kind may have left a nonzero byte behind.
Runs on the optimized builds (checked and fast); thorough adds valgrind memcheck for addressability."""
import os
import re

from lib import caselang as cl
from lib import framework as fw
from lib import gen

RULE = ("one case = one drop of a shared secret or context under the memory scan, or one setup bracketed by ledger read-outs; "
        "distinct = distinct (kem, kdf, aead, mode, role, object kind, build) combinations with a sighted (non-blind) scan")
ASSUMPTIONS = ["only the object's own storage at the time of the drop is inspected (stale stack copies left by moves are outside the property)",
               "a wipe implemented with plain stores could be removed by the optimizer in other call sites; the monitor observes the driver's call sites only"]

KINDS = ["aead_key", "aead_nonce", "exporter_secret", "shared_secret"]


def build(env, suites, per_cell, unwind=None):
    g = gen.G(env.rnd)
    rnd = env.rnd
    cw = cl.CaseW()
    uw = dict(unwind=1) if unwind else {}
    for (kem, kdf, aead) in suites:
        for mode in gen.MODES:
            for j in range(per_cell):
                s = cw.session(kem, kdf, aead, sid="w%d" % len(cw.sessions))
                nsk = gen.nsk(kem)
                gen.add_keys(s, g, kem, "kR")
                gen.add_keys(s, g, kem, "kS")
                auth = mode in (2, 3)
                # --- shared secret
                if auth:
                    s.call("encap", pkr="$kR.pk", sks="$kS.sk", pks="$kS.pk", rng=g.rbytes(nsk), scan=1, out="e", obj="shared_secret", role="S", **uw)
                    s.call("decap", skr="$kR.sk", enc="$e.enc", pks="$kS.pk", scan=1, obj="shared_secret", role="R", **uw)
                else:
                    s.call("encap", pkr="$kR.pk", rng=g.rbytes(nsk), scan=1, out="e", obj="shared_secret", role="S", **uw)
                    s.call("decap", skr="$kR.sk", enc="$e.enc", scan=1, obj="shared_secret", role="R", **uw)
                # --- setup bracketed by the ledger
                pa = dict(psk=g.rbytes(32), pskid=g.rbytes(5)) if mode in (1, 3) else {}
                sa = dict(sks="$kS.sk", pks="$kS.pk", **pa) if auth else dict(pa)
                ra = dict(pks="$kS.pk", **pa) if auth else dict(pa)
                info = g.rbytes(rnd.choice([0, 7]))
                s.call("ledger", mark="before_setup_s")
                s.call("setup_s", mode=mode, pkr="$kR.pk", info=info, rng=g.rbytes(nsk), out="S", **sa)
                s.call("ledger", mark="after_setup_s")
                s.call("setup_r", mode=mode, skr="$kR.sk", enc="$S.enc", info=info, out="R", **ra)
                s.call("ledger", mark="after_setup_r")
                s.call("peek", ctx="S")
                s.call("peek", ctx="R")
                # --- use the contexts 0, 1 or many times
                if aead != 0xFFFF and rnd.random() < 0.5:
                    # a rejected delivery before anything else (per-message nonce == base nonce here)
                    s.call("open", ctx="R", api="alloc", ct=g.rbytes(24), aad="-")
                if aead != 0xFFFF:
                    for i in range(rnd.choice([0, 1, 9])):
                        s.call("seal", ctx="S", api=rnd.choice(["alloc", "inplace"]), pt=g.rbytes(rnd.choice([0, 20])), aad="-", out="m%d" % i)
                        s.call("open", ctx="R", api="alloc", ct="$m%d.full" % i, aad="-")
                s.call("export", ctx="S", exctx="-", len=16)
                s.call("export", ctx="R", exctx="-", len=16)
                if aead != 0xFFFF and rnd.random() < 0.5:
                    # the last thing the receiver sees before it is dropped is a rejected delivery
                    s.call("open", ctx="R", api="inplace", ct=g.rbytes(8), tag=g.rbytes(16), aad="-")
                s.call("liveness", ctx="S")
                s.call("liveness", ctx="R")
                s.call("ledger", mark="before_drops")
                s.call("drop", ctx="S", scan=1, obj="context", role="S", **uw)
                s.call("drop", ctx="R", scan=1, obj="context", role="R", **uw)
                s.call("ledger", mark="after_drops")
                # a second pair, boxed and dropped the ordinary way while the freed-memory monitor is armed
                s.call("setup_s", mode=mode, pkr="$kR.pk", info=info, rng=g.rbytes(nsk), out="HS", **sa)
                s.call("setup_r", mode=mode, skr="$kR.sk", enc="$HS.enc", info=info, out="HR", **ra)
                s.call("peek", ctx="HS")
                s.call("peek", ctx="HR")
                s.call("export", ctx="HS", exctx="-", len=32)
                s.call("export", ctx="HR", exctx="-", len=32)
                s.call("liveness", ctx="HS")
                s.call("liveness", ctx="HR")
                s.call("drop", ctx="HS", scan=2, obj="context_heap", role="S")
                s.call("drop", ctx="HR", scan=2, obj="context_heap", role="R")
    return cw


def _classes(v):
    """degenerate-looking values a value-dependent wipe might mistake for 'already clear'"""
    out = []
    x = 0
    for b in v:
        x ^= b
    if x == 0:
        out.append("xor_fold_zero")
    if sum(v) % 256 == 0:
        out.append("byte_sum_zero")
    if v[0] == 0:
        out.append("leading_zero_byte")
    if v[-1] == 0:
        out.append("trailing_zero_byte")
    return out


def build_directed(env):
    """Directed rare-event inputs (each class has probability 2^-8 per random secret): the reference
    model is used to *search* for RNG bytes / info strings whose shared secret, exporter secret or base
    nonce falls into a degenerate-looking class.  The monitor that judges the drop is unchanged."""
    from ref import hpke_ref as R
    g = gen.G(env.rnd)
    cw = cl.CaseW()
    kem = 0x0020
    k = R.KEMS[kem]
    found = {}
    ikmR = g.raw(32)
    skR, pkR = k.derive_key_pair(ikmR)
    want = {"xor_fold_zero", "byte_sum_zero", "leading_zero_byte", "trailing_zero_byte"}
    # --- shared secret
    hits = {}
    for t in range(6000):
        rng = t.to_bytes(4, "big") + b"directed-shared-secret-search" [:28]
        ss, enc = k.encap(pkR, rng)
        for c in _classes(ss):
            hits.setdefault(c, rng)
        if want <= set(hits):
            break
    for c, rng in sorted(hits.items()):
        s = cw.session(kem, 1, 1, sid="dss_%s" % c)
        s.call("derive_keypair", ikm=ikmR, out="kR")
        s.call("encap", pkr="$kR.pk", rng=rng, scan=1, out="e", obj="shared_secret", role="S", directed=c)
        s.call("decap", skr="$kR.sk", enc="$e.enc", scan=1, obj="shared_secret", role="R", directed=c)
        s.call("ledger", mark="before_setup_s")
        s.call("setup_s", mode=0, pkr="$kR.pk", info="-", rng=rng, out="S")
        s.call("ledger", mark="after_setup_s")
        s.call("setup_r", mode=0, skr="$kR.sk", enc="$S.enc", info="-", out="R")
        s.call("ledger", mark="after_setup_r")
        s.call("liveness", ctx="S")
        s.call("liveness", ctx="R")
        s.call("ledger", mark="before_drops")
        s.call("drop", ctx="S", scan=1, obj="context", role="S")
        s.call("drop", ctx="R", scan=1, obj="context", role="R")
        s.call("ledger", mark="after_drops")
        found["shared_secret:" + c] = True
    # --- exporter secret and base nonce: search over info strings (key schedule only, cheap)
    for (kdf, aead) in ((1, 1), (2, 2), (3, 3), (1, 0xFFFF)):
        su = R.suite(kem, kdf, aead)
        rng = g.raw(32)
        ss, enc = k.encap(pkR, rng)
        hits = {}
        for t in range(6000):
            info = b"directed-info-" + t.to_bytes(4, "big")
            ctx = su.key_schedule(0, ss, info)
            for c in _classes(ctx.exporter_secret):
                hits.setdefault(("exporter_secret", c), info)
            if ctx.base_nonce:
                for c in _classes(ctx.base_nonce):
                    hits.setdefault(("base_nonce", c), info)
            if len(hits) >= (8 if aead != 0xFFFF else 4):
                break
        for (what, c), info in sorted(hits.items()):
            s = cw.session(kem, kdf, aead, sid="d%s_%s_%d_%04x" % (what[:2], c, kdf, aead))
            s.call("derive_keypair", ikm=ikmR, out="kR")
            s.call("ledger", mark="before_setup_s")
            s.call("setup_s", mode=0, pkr="$kR.pk", info=info, rng=rng, out="S", directed=what + ":" + c)
            s.call("ledger", mark="after_setup_s")
            s.call("setup_r", mode=0, skr="$kR.sk", enc="$S.enc", info=info, out="R")
            s.call("ledger", mark="after_setup_r")
            s.call("liveness", ctx="S")
            s.call("liveness", ctx="R")
            s.call("ledger", mark="before_drops")
            s.call("drop", ctx="S", scan=1, obj="context", role="S")
            s.call("drop", ctx="R", scan=1, obj="context", role="R")
            s.call("ledger", mark="after_drops")
            found["%s:%s" % (what, c)] = True
    return cw, sorted(found)


def shipping_build_text(sessions):
    """Second pass on the build a user ships (guard off, no debug assertions): without the ledger hook
    nothing inside the crate reads the wiped bytes, so a wipe made of plain stores can be removed by the
    optimizer where the memory is about to be freed.  Only the boxed contexts dropped under the freed-memory
    monitor are replayed; what to look for (base nonce, exporter secret of each context) is taken from the
    first pass's log, the sessions being deterministic."""
    out = []
    for s in sessions:
        secrets = {}
        for op in s.ops:
            if op.op in ("setup_s", "setup_r") and op.ok() and "es" in op.ret:
                secrets[op.args["out"]] = (op.ret.get("bn", "-"), op.ret["es"])
        if "HS" not in secrets or "HR" not in secrets:
            continue
        lines = [s.header]
        for op in s.all_ops:
            raw = op.raw
            if op.op == "derive_keypair":
                lines.append(raw)
            elif op.args.get("out") in ("HS", "HR"):
                lines.append(raw)
            elif op.args.get("ctx") in ("HS", "HR"):
                bn, es = secrets[op.args["ctx"]]
                if op.op in ("peek", "liveness", "drop"):
                    raw += " bn=%s es=%s" % (bn, es)
                lines.append(raw)
        out.append("\n".join(lines) + "\nE %s\n" % s.sid)
    return "".join(out)


def parse_ledger(sv):
    if sv == "nohooks":
        return None
    return [tuple(int(x) for x in row.split(":")) for row in sv.split(",")]


def monitor(sess, extra):
    r = fw.MonResult()
    build = extra or "checked"
    marks = {}
    mode = "?"
    initial = {}
    live = {}  # ctx -> {(needle name, offset): live?}
    for op in sess.ops:
        if op.ret is None:
            r.violation("C16:noreturn:%s" % op.op, "%s never returned" % op.id, sess, op)
            return r
        if op.op in ("setup_s", "setup_r"):
            mode = op.args["mode"]
            if not op.ok():
                r.inconclusive.append("honest setup failed in C16 workload (%s)" % op.outcome())
                return r
        if op.op in ("encap", "decap") and op.args.get("scan") == "1":
            if not op.ok():
                r.inconclusive.append("honest %s failed in C16 workload" % op.op)
                return r
            r.counts["evaluations"] += 1
            ss, pre, post = op.out("ss"), op.out("pre"), op.out("post")
            at = pre.find(ss)
            if at < 0 or not any(ss):
                r.inconclusive.append("shared-secret scan is blind: the value was not found in the object's storage before the drop")
                continue
            if post.find(ss) >= 0 or any(post[at: at + len(ss)]):
                left = sum(1 for x in post[at: at + len(ss)] if x)
                r.violation("C16:shared_secret_not_wiped", "after dropping the KEM shared secret (%s, %s build) %d of its %d bytes are still nonzero in its storage" % (op.op, build, left, len(ss)), sess, op)
                continue
            r.distinct.add((sess.ids, mode, op.args["role"], "shared_secret", build))
            r.counts["scan:shared_secret"] += 1
        elif op.op == "liveness" and op.ok():
            r.counts["evaluations"] += 1
            if op.ret.get("restored") != "1":
                r.inconclusive.append("liveness probe did not restore the context's behaviour (harness problem)")
                return r
            d = {}
            if op.ret["probes"] != "-":
                for item in op.ret["probes"].split(";"):
                    nm, rest = item.split("@")
                    off, lv = rest.split(":")
                    d[(nm, off)] = lv == "1"
            live[op.args["ctx"]] = d
            r.counts["liveness_probes"] += len(d)
            r.counts["liveness_live_regions"] += sum(1 for v in d.values() if v)
        elif op.op == "peek" and op.ok():
            initial[op.args["ctx"]] = {"bn": op.ret["bn_at"], "es": op.ret["es_at"]}
            r.counts["evaluations"] += 1
            if op.ret.get("derived", "-") != "-":
                # a transformed copy of a secret (byte-reversed, XORed with an HMAC pad, a reversed 64-bit half) sits in
                # the live context: that is a second representation of the secret and has to be wiped like the first
                initial[op.args["ctx"]]["derived"] = op.ret["derived"]
        elif op.op == "drop" and op.args.get("scan") == "2":
            r.counts["evaluations"] += 1
            if "skip" in op.ret:
                continue
            hits = dict(h.split(":") for h in op.ret["heap_hits"].split(",")) if op.ret["heap_hits"] != "-" else {}
            init = initial.get(op.args["ctx"])
            if init is None:
                r.inconclusive.append("no peek before the heap drop")
                continue
            bad = False
            for nd, what in (("bn", "base nonce"), ("es", "exporter secret")):
                if int(op.ret[nd + "len"]) == 0:
                    continue
                sighted = 0 if init[nd] == "-" else len(init[nd].split(","))
                if sighted == 0:
                    r.inconclusive.append("heap monitor is blind for the %s" % what)
                    continue
                left = int(hits.get(nd, 0))
                if left > sighted - 1:
                    r.violation("C16:%s_left_in_freed_memory" % ("base_nonce" if nd == "bn" else "exporter_secret"),
                                "the %s context's %s is still in its heap block when the block is handed back to the allocator (%d of %d sightings left; %s build)" % (
                                    "sender" if op.args["role"] == "S" else "receiver", what, left, sighted, build), sess, op)
                    bad = True
            lv = live.get(op.args["ctx"])
            if lv is None:
                r.inconclusive.append("no liveness probe before the heap drop")
                continue
            for k, v in hits.items():
                if "_" in k:
                    dead = sum(1 for (nm, off), isl in lv.items() if nm == k and not isl)
                    if int(v) > dead:
                        r.violation("C16:transformed_copy_left_in_freed_memory:%s" % k.split("_", 1)[1],
                                    "a transformed copy (%s) of a secret that the context actually uses (inverting it changes the context's output) is still in the heap block when it is freed (%s build)" % (k, build), sess, op)
                        bad = True
                else:
                    # raw needle: beyond the general rule above, nothing that is live may remain
                    dead = sum(1 for (nm, off), isl in lv.items() if nm == k and not isl)
                    if int(v) > dead and int(op.ret[k + "len"]) != 0:
                        r.violation("C16:%s_left_in_freed_memory" % ("base_nonce" if k == "bn" else "exporter_secret"),
                                    "a copy of the %s that the context actually uses is still in its heap block when freed (%s left, %d dead sightings; %s build)" % (
                                        "base nonce" if k == "bn" else "exporter secret", v, dead, build), sess, op)
                        bad = True
            if not bad:
                r.distinct.add((sess.ids, mode, op.args["role"], "heap", build))
                r.counts["heap_drops_clean"] += 1
        elif op.op == "drop" and op.args.get("scan") == "1":
            r.counts["evaluations"] += 1
            ret = op.ret
            if "skip" in ret:
                r.inconclusive.append("context to drop does not exist")
                continue
            blind = []
            for nd, what in (("bn", "base nonce"), ("es", "exporter secret")):
                if int(ret[nd + "len"]) == 0:
                    continue
                if ret[nd + "_pre"] == "-":
                    blind.append(what)
                    continue
                zeros = ret[nd + "_zero"].split(",")
                # the field that holds the secret is whichever sighting the destructor wiped; further sightings
                # are stale copies in dead bytes of the object (padding, inactive union variants) that moves
                # carried along - outside the property, counted but not judged
                if "1" not in zeros:
                    r.violation("C16:%s_not_wiped" % ("base_nonce" if nd == "bn" else "exporter_secret"),
                                "after dropping the %s context (%s build) its %s is still present in the context's storage (offsets %s of %s bytes, none wiped)" % (
                                    "sender" if op.args["role"] == "S" else "receiver", build, what, ret[nd + "_pre"], ret["size"]), sess, op)
                else:
                    if "0" in zeros:
                        # an unwiped sighting that was already there right after setup is residue a move carried
                        # along; one that APPEARED later was put there by an operation and is live state
                        init = initial.get(op.args["ctx"], {}).get(nd)
                        offs = ret[nd + "_pre"].split(",")
                        lvd = live.get(op.args["ctx"], {})
                        late = [o for o, z in zip(offs, zeros) if z == "0" and ((init is not None and o not in init.split(",")) or lvd.get((nd, o)))]
                        if late:
                            r.violation("C16:%s_copied_and_not_wiped" % ("base_nonce" if nd == "bn" else "exporter_secret"),
                                        "the %s context (%s build) holds a copy of its %s at offset %s that was not there after setup (an operation stored it) and that survives the drop" % (
                                            "sender" if op.args["role"] == "S" else "receiver", build, what, ",".join(late)), sess, op)
                            continue
                        r.counts["stale_copies_in_dead_bytes_of_context"] += zeros.count("0")
                    r.distinct.add((sess.ids, mode, op.args["role"], what, build))
                    r.counts["scan:%s" % what.replace(" ", "_")] += 1
            if ret.get("derived", "-") != "-":
                for item in ret["derived"].split(";"):
                    name, rest = item.split("@")
                    off, wiped = rest.split(":")
                    lvd = live.get(op.args["ctx"], {})
                    if wiped == "0" and (lvd.get((name, off)) or (name, off) not in lvd):
                        # live (inverting it changes the context's output) or stored after the liveness probe
                        r.violation("C16:transformed_copy_not_wiped:%s" % name.split("_", 1)[1],
                                    "the %s context (%s build) holds a transformed copy of a secret (%s at offset %s) that survives the drop" % (
                                        "sender" if op.args["role"] == "S" else "receiver", build, name, off), sess, op)
            if blind:
                r.inconclusive.append("context scan is blind for %s: not found in the context's own storage before the drop (layout change?)" % ", ".join(blind))
        elif op.op == "ledger":
            marks[op.args["mark"]] = parse_ledger(op.ret.get("l", "nohooks"))
    if marks.get("before_setup_s") is None:
        r.counts["ledger_unavailable"] += 1
        return r

    def delta(a, b):
        return [tuple(y - x for x, y in zip(ra, rb)) for ra, rb in zip(marks[a], marks[b])]

    checks = [("before_setup_s", "after_setup_s", "setup_sender", {"aead_key": 1, "shared_secret": 1}),
              ("after_setup_s", "after_setup_r", "setup_receiver", {"aead_key": 1, "shared_secret": 1}),
              ("before_drops", "after_drops", "dropping both contexts", {"exporter_secret": 2, "aead_nonce": 2})]
    for a, b, what, need in checks:
        if marks.get(a) is None or marks.get(b) is None:
            continue
        d = delta(a, b)
        r.counts["evaluations"] += 1
        bad = False
        for i, kind in enumerate(KINDS):
            drops, nonzero, nbytes = d[i]
            if nonzero:
                r.violation("C16:ledger_nonzero:%s" % kind, "during %s, %d drop(s) of kind %s left nonzero bytes behind (%s build)" % (what, nonzero, kind, build), sess, sess.ops[-1])
                bad = True
            if drops < need.get(kind, 0):
                r.violation("C16:ledger_missing_drop:%s" % kind, "during %s only %d wiping drop(s) of kind %s were recorded, at least %d expected (%s build)" % (what, drops, kind, need[kind], build), sess, sess.ops[-1])
                bad = True
        if not bad:
            r.distinct.add((sess.ids, mode, what, "ledger", build))
            r.counts["ledger_windows_ok"] += 1
    if sess.ops and not r.samples and build == "checked":
        o = [x for x in sess.ops if x.op == "drop"][:1]
        if o:
            r.samples.append({"session": sess.header, "call": o[0].raw, "result": {k: v for k, v in o[0].ret.items() if k not in ("lb", "la", "afp")}})
    return r


MONITORS = {"wipe": monitor, "ship": monitor}
REPLAY_EXTRA = "checked"


def build_residue(env, suites):
    """Whole-process residue (harness/src/residue.rs): sender, then receiver, are set up WITHOUT the driver ever holding
    their secrets in clear, used a little, dropped the ordinary way; before and after the drop every writable mapping of
    the process except the thread stacks is searched for base nonce and exporter secret.  Same for the KEM shared secret."""
    g = gen.G(env.rnd)
    rnd = env.rnd
    cw = cl.CaseW()
    for i, (kem, kdf, aead) in enumerate(suites):
        mode = i % 4
        s = cw.session(kem, kdf, aead, sid="z%d" % i)
        nsk = gen.nsk(kem)
        gen.add_keys(s, g, kem, "kR")
        gen.add_keys(s, g, kem, "kS")
        pa = dict(psk=g.rbytes(32), pskid=g.rbytes(5)) if mode in (1, 3) else {}
        sa = dict(sks="$kS.sk", pks="$kS.pk", **pa) if mode in (2, 3) else dict(pa)
        ra = dict(pks="$kS.pk", **pa) if mode in (2, 3) else dict(pa)
        info = g.rbytes(rnd.choice([0, 7, 40]))
        s.call("setup_s", mode=mode, pkr="$kR.pk", info=info, rng=g.rbytes(nsk), out="S", quiet=1, **sa)
        for _ in range(rnd.randrange(0, 3)):
            s.call("export", ctx="S", exctx=g.rbytes(rnd.choice([0, 9])), len=rnd.choice([16, 32, 64]))
        msgs = 0
        if aead != 0xFFFF:
            for _ in range(rnd.randrange(0, 3)):
                s.call("seal", ctx="S", api=rnd.choice(["alloc", "inplace"]), pt=g.rbytes(rnd.choice([0, 5, 33])), aad=g.rbytes(rnd.choice([0, 4])), out="m%d" % msgs)
                msgs += 1
        s.call("residue_scan", ctx="S", role="sender")
        s.call("setup_r", mode=mode, skr="$kR.sk", enc="$S.enc", info=info, out="R", quiet=1, **ra)
        for k in range(msgs):
            if rnd.random() < 0.3:
                s.call("open", ctx="R", api="alloc", ct="$m%d.full^flip:3" % k if False else "00" * 20, aad="-")   # a rejected delivery first
            break
        s.call("export", ctx="R", exctx="-", len=32)
        s.call("residue_scan", ctx="R", role="receiver")
        s.call("residue_scan_kem", pkr="$kR.pk", rng=g.rbytes(nsk))
    return cw


def monitor_residue(sess, extra):
    r = fw.MonResult()
    for op in sess.ops:
        if op.op not in ("residue_scan", "residue_scan_kem"):
            continue
        if op.ret is None:
            r.violation("C16:noreturn:%s" % op.op, "%s never returned" % op.id, sess, op)
            break
        if op.skipped():
            r.inconclusive.append("%s skipped: %s" % (op.id, op.skipped()))
            continue
        if not op.ok():
            r.inconclusive.append("%s: %s" % (op.id, op.outcome()))
            continue
        r.counts["evaluations"] += 1
        # sightings inside the context's own freed block are not this monitor's business (dead bytes carried along by
        # moves; the object scans and the allocator monitor decide with the liveness probe which of them matter)
        r.counts["stale_sightings_inside_own_freed_block"] += int(op.ret.get("own_block", "0"))
        before = dict(x.split(":", 1) for x in op.ret["before"].split(","))
        after = dict(x.split(":", 1) for x in op.ret["after"].split(","))
        for name, where in before.items():
            if where == "0":
                # the scan could not see the secret while its owner was alive: nothing can be concluded from "not found"
                r.counts["blind:%s" % name] += 1
                r.inconclusive.append("%s: %s was not sighted anywhere before the drop" % (op.id, name))
        for name, where in after.items():
            if where != "0":
                r.violation("C16:residue_in_process:%s:%s" % (name, re.sub(r"\d+x", "", where)),
                            "after the %s was dropped, its %s still stands in process memory outside any stack: %s (%s build)" % (
                                {"residue_scan": "context (%s)" % op.args.get("role", "?"), "residue_scan_kem": "KEM shared secret"}[op.op],
                                {"bn": "base nonce", "es": "exporter secret", "ss": "value"}[name], where, extra), sess, op)
            else:
                r.counts["residue_free:%s" % name] += 1
                r.distinct.add((sess.ids, op.op, op.args.get("role", "-"), name))
    return r


MONITORS["residue"] = monitor_residue


def run(env):
    if env.quick():
        suites = [s for i, s in enumerate(gen.suites(sealing_only=False)) if i % 4 == env.seed % 4] + [(0x0012, 3, 2), (0x0020, 1, 0xFFFF)]
        per = 1
    else:
        suites = gen.suites(sealing_only=False)
        per = 3
    text = build(env, suites, per).text()
    dcw, dfound = build_directed(env)
    text += dcw.text()
    env.extra_cov["directed_degenerate_secret_classes"] = dfound
    first = None
    for b in ("checked", "fast"):
        res = env.drive("wipe", text, build=b)
        env.require_complete(res, "wipe/" + b)
        first = first or res
        mr = env.pmap(monitor, res.sessions, extra=b, workload="wipe")
        if mr.counts["ledger_unavailable"]:
            env.inconclusive.append("drop ledger unavailable (hooks off?)")
    # secrets dropped while a panic unwinds (a handler that panics while owning a context): wiped all the same;
    # on the alloc build and on the std-feature build (where the library could ask std::thread::panicking())
    small = [su for i, su in enumerate(suites) if i % 3 == env.seed % 3][:16]
    utext = build(env, small, 1, unwind=True).text()
    for b in ("checked", "checked-std"):
        ru = env.drive("unwind", utext, build=b)
        env.require_complete(ru, "unwind/" + b)
        env.pmap(monitor, ru.sessions, extra=b + "+unwinding", workload="wipe")
    # copies parked outside the object (statics, thread-locals, leaked or long-lived heap blocks)
    rsuites = [su for i, su in enumerate(gen.suites(sealing_only=False)) if env.pick(i % 6 == env.seed % 6, True)]
    rtext = build_residue(env, rsuites).text()
    for b in ("checked", "checked-std", "fast"):
        rr = env.drive("residue", rtext, build=b)
        env.require_complete(rr, "residue/" + b)
        mr_ = env.pmap(monitor_residue, rr.sessions, extra=b, workload="residue")
        env.extra_cov["whole_process_scans:%s" % b] = mr_.counts["evaluations"]
    ship = shipping_build_text(first.sessions)
    res = env.drive("ship", ship, build="nohooks-fast")
    env.require_complete(res, "ship")
    mr = env.pmap(monitor, res.sessions, extra="nohooks-fast", workload="ship")
    env.extra_cov["shipping_build_heap_drops"] = mr.counts["heap_drops_clean"]
    if mr.counts["heap_drops_clean"] < 10 and not env.violations:
        raise fw.Inconclusive("the shipping-build pass observed only %d heap drops" % mr.counts["heap_drops_clean"])
    if not env.quick():
        log = os.path.join(env.work, "memcheck.log")
        sl = "\n".join(text.split("\nS ")[0:1]) if False else text
        # addressability of the post-drop reads: they must lie inside the live slot
        from props.c13 import slice_text
        res = env.drive("wipe-memcheck", slice_text(text, env.seed % 24, 24), build="fast",
                        wrapper=["valgrind", "--tool=memcheck", "--undef-value-errors=no", "--error-exitcode=99", "--log-file=" + log, "-q"], timeout=7200)
        env.require_complete(res, "wipe/memcheck")
        env.pmap(monitor, res.sessions, extra="fast+memcheck", workload="wipe")
        vg = open(log).read() if os.path.exists(log) else ""
        n = len(re.findall(r"^==\d+== Invalid", vg, re.M))
        env.extra_cov["memcheck_invalid_accesses"] = n
        if n or res.rc == 99:
            env.inconclusive.append("memcheck flagged the scan's own reads (%d): the scan is not trustworthy on this build" % n)
    env.extra_cov["sessions_per_build"] = text.count("\nS ") + 1


def replay(env, path):
    import props.c16 as me
    fw.generic_replay(env, me, path)
