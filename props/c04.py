"""C04 - nonce sequencing and the message limit on the sending side.

The context under test is built from raw (key, base_nonce, exporter_secret) through the
cfg(hpke_verif) constructor, so the monitor knows the key without trusting the key schedule, and
the sequence counter is moved with the set_seq hook.  An abstract model (counter + latch) is
stepped in lock-step with every call; every successful seal is recomputed with OpenSSL under
nonce = base_nonce XOR I2OSP(n, Nn)."""
from lib import caselang as cl
from lib import framework as fw
from lib import gen
from ref import aead as refaead

RULE = ("one case = one seal call (or one logged message of a burst) whose ciphertext is recomputed with "
        "OpenSSL under the model's nonce and whose (seq, overflowed) read-out is compared with the model; "
        "distinct = distinct (aead, sequence number) pairs checked plus distinct post-exhaustion call shapes")
ASSUMPTIONS = ["OpenSSL AES-GCM / ChaCha20-Poly1305 as the AEAD oracle",
               "2^64 sequence numbers cannot be enumerated: a full prefix (burst), every byte-carry boundary, the last three values and seeded random positions are explored"]
M64 = (1 << 64) - 1


def nonce(bn, n):
    s = n.to_bytes(len(bn), "big")
    return bytes(a ^ b for a, b in zip(bn, s))


# mock AEADs of harness/src/probe.rs: id -> (Nn, Nt).  RFC 9180 5.2: nonce = base_nonce XOR I2OSP(seq, Nn) for any Nn
MOCK_NN = {0x7777: (12, 16), 0x7778: (24, 32), 0x7779: (8, 16), 0x777A: (13, 20), 0x777B: (12, 16), 0x777C: (12, 16)}
MOCK_NK = {0x777B: 64}

BN_PATTERNS = ["000000000000000000000000", "ffffffffffffffffffffffff", "0000000000000000ffffffff",
               "ffffffff0000000000000001", "80000000000000007fffffff"]


def raw_ctx(s, g, aead, k, name="S"):
    nk = refaead.params(aead)[0]
    key = g.raw(nk)
    bn = bytes.fromhex(BN_PATTERNS[k]) if k < len(BN_PATTERNS) else g.raw(12)
    s.call("raw_s", key=key, bn=bn, es=g.raw({1: 32, 2: 48, 3: 64}[s.ids[1]]), out=name)
    return key, bn


def positions(env, nrand):
    pos = []
    for k in range(1, 8):
        base = 1 << (8 * k)
        pos += [base - 2, base - 1, base, base + 1]
    pos += [0, 1, M64 - 3, M64 - 2]
    for _ in range(nrand):
        pos.append(env.rnd.randrange(1 << 32, M64 - 4))
    for _ in range(nrand // 4):
        # positions whose low bytes are all ff: long carry chains
        k = env.rnd.randrange(1, 8)
        hi = env.rnd.randrange(0, 1 << (64 - 8 * k))
        pos.append(((hi << (8 * k)) | ((1 << (8 * k)) - 1)) & (M64 - 4))
    return pos


def build_positions(env, nrand, alloc=True):
    g = gen.G(env.rnd)
    cw = cl.CaseW()
    suites = [(kem, kdf, a) for a in gen.SEAL_AEADS for kem in gen.KEMS for kdf in gen.KDFS]
    env.rnd.shuffle(suites)
    pos = positions(env, nrand)
    per = max(1, len(suites))
    chunks = [pos[i::per] for i in range(per)]
    for si, (ids, chunk) in enumerate(zip(suites, chunks)):
        s = cw.session(*ids, sid="p%d" % si)
        raw_ctx(s, g, ids[2], si % 8)
        for p in chunk:
            s.call("set_seq", ctx="S", seq=p)
            for j in range(env.rnd.choice([2, 3])):
                s.call("seal", ctx="S", api=env.rnd.choice(["alloc", "inplace"]) if alloc else "inplace",
                       pt=g.rbytes(env.rnd.choice([0, 1, 16, 17, 40])), aad=g.rbytes(env.rnd.choice([0, 1, 13])))
    return cw


def build_exhaustion(env, reps):
    g = gen.G(env.rnd)
    cw = cl.CaseW()
    n = 0
    for aead in gen.SEAL_AEADS:
        for rep in range(reps):
            kem = gen.KEMS[(n) % 4]
            kdf = gen.KDFS[n % 3]
            s = cw.session(kem, kdf, aead, sid="x%d" % n)
            n += 1
            if rep % 2 == 0:
                raw_ctx(s, g, aead, rep)
            else:
                # a context that came out of the real key schedule: only the latch/state part of the
                # model applies (the key is not known to the monitor)
                gen.add_pair(s, g, kem, env.rnd.choice(gen.MODES), receiver=False)
            start = env.rnd.choice([M64 - 2, M64 - 1, M64])
            s.call("set_seq", ctx="S", seq=start)
            for j in range(M64 - start + 1):
                s.call("seal", ctx="S", api=env.rnd.choice(["alloc", "inplace"]), pt=g.rbytes(9), aad="-")
            # now dead: arbitrary further calls
            for j in range(env.rnd.randrange(8, 20)):
                c = env.rnd.random()
                if c < 0.75:
                    s.call("seal", ctx="S", api=env.rnd.choice(["alloc", "inplace"]),
                           pt=g.rbytes(env.rnd.choice([0, 1, 15, 16, 17, 64, 300])), aad=g.rbytes(env.rnd.choice([0, 5])))
                elif c < 0.9:
                    s.call("export", ctx="S", exctx=g.rbytes(3), len=16)
                else:
                    s.call("state", ctx="S")
    return cw


def build_burst(env, n):
    g = gen.G(env.rnd)
    cw = cl.CaseW()
    for i, aead in enumerate(gen.SEAL_AEADS):
        s = cw.session(gen.KEMS[i], gen.KDFS[i], aead, sid="b%d" % i)
        raw_ctx(s, g, aead, 99)
        s.call("seal_burst", ctx="S", n=n, pt=g.raw(16), aad=g.raw(5), log="head:1024,pow8:2,stride:%d,tail:4" % (n // 512 + 1))
        # the context keeps working right after the burst
        s.call("seal", ctx="S", api="alloc", pt="00", aad="-")
    return cw


class Model:
    def __init__(self, key, bn):
        self.key = key
        self.bn = bn
        self.n = 0
        self.dead = False
        self.refused = False

    def state(self):
        return (M64, 1) if self.dead else (self.n, 0)

    def advance(self):
        if self.n >= M64:
            self.dead = True
        else:
            self.n += 1


def monitor(sess, extra):
    r = fw.MonResult()
    aead = sess.ids[2]
    models = {}
    pending_failures = [0]
    pending_panics = [0]
    for op in sess.ops:
        if op.ret is None:
            r.violation("C04:noreturn:%s" % op.op, "%s never returned" % op.id, sess, op)
            break
        if op.skipped():
            r.inconclusive.append("%s skipped: %s (hooks are required for this monitor)" % (op.id, op.skipped()))
            break
        name = op.args.get("ctx")
        if op.op == "raw_s":
            models[op.args["out"]] = Model(op.b["key"], op.b["bn"])
        elif op.op == "setup_s":
            if op.ok():
                models[op.args["out"]] = Model(None, op.out("bn"))
        elif op.op == "set_seq":
            m = models[name]
            m.n = int(op.args["seq"])
            m.dead = False
            m.refused = False
        elif op.op == "probe_ctl":
            pending_failures[0] = int(op.args.get("fail_seal", "0"))
            pending_panics[0] = int(op.args.get("panic_seal", "0"))
        elif op.op == "seal" and aead in MOCK_NN:
            m = models[name]
            r.counts["evaluations"] += 1
            inplace = op.args["api"] == "inplace"
            if m.dead:
                if op.err() != "MessageLimitReached":
                    r.violation("C04:seal_after_limit:%s" % ("ok" if op.ok() else op.outcome()), "seal on an exhausted context returned %s" % op.outcome(), sess, op)
                continue
            if pending_panics[0] > 0:
                # a user-supplied AEAD may panic; RFC 9180 5.2: Seal raised, so the sequence number is not incremented
                pending_panics[0] -= 1
                if not op.panic():
                    r.violation("C04:aead_panic_swallowed", "the AEAD panicked but seal returned %s" % op.outcome(), sess, op)
                    continue
                r.counts["aead_panics_driven"] += 1
                r.distinct.add((aead, "aead_panic", op.args["api"]))
            elif pending_failures[0] > 0:
                pending_failures[0] -= 1
                if op.err() != "SealError":
                    r.violation("C04:seal_error_not_reported", "the AEAD failed but seal returned %s" % op.outcome(), sess, op)
                    continue
                r.counts["seal_errors_driven"] += 1
                r.distinct.add((aead, "seal_error", op.args["api"]))
                # nothing may have changed: same sequence number, no latch
            else:
                if not op.ok():
                    r.violation("C04:early_refusal:%s" % op.outcome(), "seal at sequence number %d failed with %s (mock AEAD, no failure requested)" % (m.n, op.outcome()), sess, op)
                    continue
                nn, ntag = MOCK_NN[aead]
                tag = op.out("tag") if inplace else op.out("full")[-ntag:]
                if m.bn is not None and tag[:nn] != nonce(m.bn, m.n):
                    seen = int.from_bytes(bytes(a ^ b for a, b in zip(tag[:nn], m.bn)), "big")
                    r.violation("C04:wrong_nonce", "the AEAD was called with the nonce of sequence number %d for the message that is number %d among the successfully sealed ones (an earlier failed seal must not consume a sequence number)" % (seen, m.n), sess, op)
                else:
                    r.distinct.add((aead, m.n))
                m.advance()
            st = (int(op.ret["seq"]), int(op.ret["ovf"])) if "seq" in op.ret else None
            if st is not None and st != m.state():
                r.violation("C04:state", "(seq, overflowed) = %s after the call, model says %s" % (st, m.state()), sess, op)
        elif op.op == "seal":
            m = models[name]
            r.counts["evaluations"] += 1
            inplace = op.args["api"] == "inplace"
            pt, aad = op.b["pt"], op.b["aad"]
            if m.dead:
                # refuse forever, buffer untouched, state frozen
                if op.err() != "MessageLimitReached":
                    sig = "C04:seal_after_limit:%s" % ("ok" if op.ok() else op.outcome())
                    r.violation(sig, "seal on an exhausted context returned %s instead of MessageLimitReached%s" % (
                        op.outcome(), " (the context had already refused once)" if m.refused else ""), sess, op)
                    continue
                if inplace and op.out("buf") != pt:
                    r.violation("C04:refusal_touched_buffer", "MessageLimitReached but the caller's buffer was modified", sess, op)
                m.refused = True
                r.distinct.add((aead, "dead", op.args["api"], len(pt)))
                r.counts["post_exhaustion_calls"] += 1
            else:
                if not op.ok():
                    r.violation("C04:early_refusal:%s" % op.outcome(),
                                "seal at sequence number %d failed with %s although the limit (2^64-1 used) was not reached" % (m.n, op.outcome()), sess, op)
                    if op.err() == "MessageLimitReached":
                        m.refused = True
                    continue
                if m.refused:
                    r.violation("C04:seal_after_refusal", "seal succeeded after the context had returned MessageLimitReached", sess, op)
                if m.key is not None:
                    want = refaead.seal(aead, m.key, nonce(m.bn, m.n), aad, pt)
                    got = op.out("full") if not inplace else op.out("ct") + op.out("tag")
                    if got != want:
                        # diagnose: which sequence number, if any, explains the output?
                        why = "no nearby sequence number explains it"
                        for cand in (m.n + 1, m.n - 1, m.n & 0xFFFFFFFF, int.from_bytes(m.n.to_bytes(8, "big"), "little"), 0):
                            if 0 <= cand <= M64 and refaead.seal(aead, m.key, nonce(m.bn, cand), aad, pt) == got:
                                why = "it is the ciphertext for sequence number %d" % cand
                        r.violation("C04:wrong_nonce", "message sealed at sequence number %d is not AEAD(key, base_nonce XOR I2OSP(%d)): %s" % (m.n, m.n, why), sess, op)
                    r.distinct.add((aead, m.n))
                m.advance()
            st = (int(op.ret["seq"]), int(op.ret["ovf"])) if "seq" in op.ret else None
            if st is not None and st != m.state():
                r.violation("C04:state", "(seq, overflowed) = %s after the call, model says %s" % (st, m.state()), sess, op)
        elif op.op == "state":
            m = models[name]
            st = (int(op.ret["seq"]), int(op.ret["ovf"]))
            if st != m.state():
                r.violation("C04:state", "(seq, overflowed) = %s, model says %s" % (st, m.state()), sess, op)
        elif op.op == "seal_burst":
            m = models[name]
            n = int(op.args["n"])
            ret = op.ret
            if int(ret.get("okc", -1)) != n or int(ret.get("errc", -1)) != 0:
                r.violation("C04:burst_refusal", "burst of %d seals from sequence %d: %s succeeded, first error %s" % (n, m.n, ret.get("okc"), ret.get("firsterr")), sess, op)
            if ret.get("dups", "0") not in ("0", "-"):
                r.violation("C04:nonce_reuse", "burst of %d seals with identical (key, pt, aad): %s identical outputs, i.e. repeated nonces (first pair %s)" % (n, ret["dups"], ret.get("firstdup")), sess, op)
            bad = 0
            for l in op.extra:
                i = int(l["i"])
                want = refaead.seal(aead, m.key, nonce(m.bn, m.n + i), op.b["aad"], op.b["pt"])
                r.counts["evaluations"] += 1
                r.distinct.add((aead, m.n + i))
                if l["full"] != cl.outenc(want):
                    bad += 1
                    if bad == 1:
                        r.violation("C04:wrong_nonce", "burst message %d is not AEAD(key, base_nonce XOR I2OSP(%d))" % (i, m.n + i), sess, op)
            r.counts["burst_messages_sealed"] += n
            r.counts["burst_messages_recomputed"] += len(op.extra)
            m.n += n
            st = (int(ret["seq"]), int(ret["ovf"])) if "seq" in ret else None
            if st is not None and st != m.state():
                r.violation("C04:state", "(seq, overflowed) = %s after the burst, model says %s" % (st, m.state()), sess, op)
    seals = [o for o in sess.ops if o.op in ("seal", "seal_burst")]
    if seals and not r.samples:
        o = seals[-1]
        r.samples.append({"session": sess.header, "call": o.raw[:160], "result": o.outcome(), "state": [o.ret.get("seq"), o.ret.get("ovf")] if o.ret else None})
    return r


def build_volume(env, nmsgs, size):
    """Data volume, not message count: tens of GiB through one context (a per-context byte/block budget
    would run out long before the sequence number does)."""
    g = gen.G(env.rnd)
    cw = cl.CaseW()
    for i, aead in enumerate(gen.SEAL_AEADS):
        s = cw.session(0x0020, gen.KDFS[i], aead, sid="v%d" % i)
        raw_ctx(s, g, aead, 99)
        s.call("seal_burst", ctx="S", n=nmsgs, pt="@z:00:%d" % size, aad="-", keep=0, log="head:1,tail:1")
        s.call("seal", ctx="S", api="inplace", pt="00", aad="-")
    return cw


def build_probe(env, reps):
    """A mock AEAD (plugged in through the crate's public Aead trait) echoes the nonce in the tag and fails on
    request: the nonce of every message is observed directly, and the SealError path - unreachable with real
    AEADs below 2^36 bytes - is driven: a failed seal must not consume a sequence number, set the latch or
    disturb the messages after it."""
    g = gen.G(env.rnd)
    rnd = env.rnd
    cw = cl.CaseW()
    for r in range(reps):
        kem = gen.KEMS[r % 4]
        aead = (0x7777, 0x7778, 0x7779, 0x777A, 0x777B, 0x777C)[(r // 2) % 6]
        nn = MOCK_NN[aead][0]
        s = cw.session(kem, [1, 3][r % 2], aead, sid="q%d" % r)
        key, bn = g.raw(MOCK_NK.get(aead, 32)), ((bytes.fromhex(BN_PATTERNS[r % len(BN_PATTERNS)]) * 2)[:nn] if r % 2 else g.raw(nn))
        s.call("raw_s", key=key, bn=bn, es=g.raw({1: 32, 3: 64}[s.ids[1]]), out="S")
        for p in (0, 254, (1 << 32) - 2, M64 - 6):
            s.call("set_seq", ctx="S", seq=p)
            for j in range(8):
                x = rnd.random()
                if x < 0.35:
                    s.call("probe_ctl", fail_seal=rnd.choice([1, 1, 2]))
                elif x < 0.5:
                    s.call("probe_ctl", panic_seal=1)
                s.call("seal", ctx="S", api=rnd.choice(["alloc", "inplace"]), pt=g.rbytes(rnd.choice([0, 1, 16, 33])), aad=g.rbytes(rnd.choice([0, 3])))
        s.call("probe_ctl", fail_seal=0)
        # a seal that fails exactly at the last sequence number: the nonce of 2^64-1 has not been used, so the next
        # seal must succeed with it, and only then is the context exhausted
        for start, nfail in ((M64, 1), (M64, 2), (M64 - 1, 1)):
            s.call("set_seq", ctx="S", seq=start)
            s.call("probe_ctl", fail_seal=nfail)
            for _ in range(nfail + 2 + (M64 - start) + 1):
                s.call("seal", ctx="S", api=rnd.choice(["alloc", "inplace"]), pt="0a0b", aad="-")
            s.call("probe_ctl", fail_seal=0)
        # also through the real key schedule and the single-shot form
        gen.add_pair(s, g, kem, rnd.choice(gen.MODES), sname="T", receiver=False)
        s.call("probe_ctl", fail_seal=1)
        s.call("seal", ctx="T", api="inplace", pt="0102", aad="-")
        s.call("seal", ctx="T", api="alloc", pt="0102", aad="-")
        s.call("seal", ctx="T", api="inplace", pt="0102", aad="-")
    return cw


def build_foreign(env, alloc=True):
    """A small raw-key workload for interpretation on other targets (32-bit, big-endian): positions on both
    sides of 2^32, every byte of the counter non-zero, the last value."""
    g = gen.G(env.rnd)
    cw = cl.CaseW()
    for i, aead in enumerate(gen.SEAL_AEADS):
        s = cw.session(0x0020, 1, aead, sid="f%d" % i)
        raw_ctx(s, g, aead, i)
        for p in (0, 1, 255, 256, (1 << 32) - 1, 1 << 32, (1 << 32) + 1, 0x0102030405060708, M64 - 1):
            s.call("set_seq", ctx="S", seq=p)
            s.call("seal", ctx="S", api="inplace", pt="0011223344", aad="aa")
            s.call("seal", ctx="S", api="alloc" if alloc else "inplace", pt="-", aad="-")
        s.call("seal", ctx="S", api="inplace", pt="00", aad="-")
    return cw


MONITORS = {"positions": monitor, "exhaustion": monitor, "burst": monitor, "volume": monitor, "foreign": monitor, "probe": monitor}


def run(env):
    nrand, reps, nburst = env.pick((1000, 4, 1 << 20), (100000, 40, 1 << 24))
    for name, cw in (("positions", build_positions(env, nrand)), ("exhaustion", build_exhaustion(env, reps)),
                     ("probe", build_probe(env, env.pick(12, 200))), ("burst", build_burst(env, nburst))):
        res = env.drive(name, cw.text())
        env.require_complete(res, name)
        env.pmap(monitor, res.sessions, workload=name)
        env.extra_cov["driver_wall_s_%s" % name] = round(res.wall, 2)
    # other code generation settings (a build script or cfg can key on them): size-optimised and native-CPU builds every
    # time, the other opt-levels in the thorough tier
    # Conjunctions of settings select code as well (cfg(all(panic = "abort", not(feature = "alloc")))): two mixed builds every
    # time; in the thorough tier a covering set in which every pair of settings of
    # {alloc, std, neither} x opt-level {0, 2, 3, s, z} x panic {unwind, abort} x target-cpu {baseline, native} x debug assertions
    # occurs together in some build.
    matrix = {}
    mtext = build_positions(env, env.pick(30, 200)).text()
    mtext_inplace = build_positions(env, env.pick(30, 200), alloc=False).text()
    blist = [fw.BUILDS[b] for b in env.pick(("opts", "native", "mix-noalloc-abort-s-native", "mix-std-abort-z", "noprobe"), ("opt0", "opt1", "opts", "optz", "native", "mix-noalloc-abort-s-native", "mix-std-abort-z", "noprobe"))]
    if not env.quick():
        blist += fw.pairwise_builds()
    for b in blist:
        noalloc = b.features is not None and "alloc" not in b.features and "std" not in b.features
        rb = env.drive("matrix", mtext_inplace if noalloc else mtext, build=b if b.name not in fw.BUILDS else b.name)
        env.require_complete(rb, "matrix/" + b.name)
        env.pmap(monitor, rb.sessions, workload="positions")
        matrix[b.name] = sum(len(x.ops) for x in rb.sessions)
    env.extra_cov["build_configuration_matrix_ops"] = matrix
    if not env.quick():
        res = env.drive("volume", build_volume(env, 66000, 1 << 20).text(), timeout=7200)
        env.require_complete(res, "volume")
        env.pmap(monitor, res.sessions, workload="volume")
        env.extra_cov["volume_bytes_per_context"] = 66000 * (1 << 20)
        ftext = build_foreign(env).text()
        foreign = {}
        # (target, cargo features): conjunctions of target and feature set select code too (e.g. a 32-bit no-alloc path)
        for target, feats in (("i686-unknown-linux-gnu", None), ("s390x-unknown-linux-gnu", None), ("aarch64-unknown-linux-gnu", None), ("powerpc-unknown-linux-gnu", None),
                              ("i686-unknown-linux-gnu", ["x25519"]), ("s390x-unknown-linux-gnu", ["x25519", "std"])):
            text_ = ftext if feats is None or "std" in feats else build_foreign(env, alloc=False).text()
            sessions, note = fw.run_miri(env, "foreign-" + target.split("-")[0] + ("-" + "-".join(feats) if feats else ""), text_, target=target, features=feats)
            foreign[target + ("+" + ",".join(feats) if feats else "")] = note
            if sessions is not None:
                env.pmap(monitor, sessions, workload="foreign", procs=1)
        env.extra_cov["foreign_targets_under_miri"] = foreign
    env.extra_cov["max_sequence_number_sealed"] = max([d[1] for d in env.distinct if isinstance(d[1], int)] or [0])
    env.exhaustive = False


def replay(env, path):
    import props.c04 as me
    fw.generic_replay(env, me, path)
