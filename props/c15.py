"""C15 - PSK inputs appear together or not at all; the bundle's key and identifier are the ones
that enter the key schedule in Psk/AuthPsk, and the non-PSK modes use the empty defaults.

Part 1 (validation) is a direct oracle on PskBundle::new over all emptiness combinations.
Part 2 (routing) compares sessions with the reference model and *attributes* a mismatch before
reporting it: the reference is re-evaluated under explicit hypotheses (psk and psk_id swapped, one
of them dropped, both dropped, a different mode byte).  Only a mismatch that a PSK-routing
hypothesis reproduces - or that is confined to one mode family while the other family matches the
reference and no mode-byte hypothesis explains it - is a C15 violation; anything else is left to C02."""
from lib import caselang as cl
from lib import framework as fw
from lib import gen
from lib import refinterp
from ref import hpke_ref as R

RULE = ("one case = one PskBundle::new call (validation) or one session whose sender/receiver exports and ciphertexts are compared "
        "with the reference under the bundle's (psk, psk_id) (routing); distinct = distinct (psk-length, id-length) pairs and "
        "distinct (kem, kdf, aead, mode) routing cells")
ASSUMPTIONS = ["reference model as in C02", "psk != psk_id in every routing session, so a swap is visible"]

LENS = [0, 1, 2, 31, 32, 33, 255, 4096, 65535, 65536, 70001]


def build_validation(env, reps):
    g = gen.G(env.rnd)
    cw = cl.CaseW()
    s = cw.session(0x0020, 1, 1, sid="v")
    for a in LENS:
        for b in LENS:
            for k in range(reps):
                if k == 0:
                    pa, pb = "@z:00:%d" % a if a else "-", "@z:00:%d" % b if b else "-"
                else:
                    pa, pb = g.rbytes(a), g.rbytes(b)
                s.call("psk_bundle", psk=pa, pskid=pb)
    for _ in range(reps * 20):
        s.call("psk_bundle", psk=g.rbytes(env.rnd.choice([0, 0, env.rnd.randrange(1, 600)])), pskid=g.rbytes(env.rnd.choice([0, 0, env.rnd.randrange(1, 600)])))
    return cw


def build_routing(env, per_cell):
    g = gen.G(env.rnd)
    rnd = env.rnd
    cw = cl.CaseW()
    for (kem, kdf, aead) in gen.suites(sealing_only=False):
        for j in range(per_cell):
            s = cw.session(kem, kdf, aead, sid="r%d" % len(cw.sessions))
            gen.add_keys(s, g, kem, "kR")
            gen.add_keys(s, g, kem, "kS")
            nsk = gen.nsk(kem)
            psk = g.raw(rnd.choice([1, 16, 32, 33, 64, 200]))
            pskid = g.raw(rnd.choice([1, 4, 32, 64]))
            if psk == pskid:
                pskid += b"\x01"
            # identifiers / keys with bytes a 'normalising' implementation might touch
            special = [b"id\n", b"id ", b"id\r\n", b" \t\r\n", b"\n", b"\x00id", b"id\x00", b"\xff\xfe", b"ID", b"id", b"\x0c", b" id", b"\tid\t"]
            if j % 2 == 1 or per_cell == 1:
                pskid = special[len(cw.sessions) % len(special)]
                if rnd.random() < 0.3:
                    psk = special[(len(cw.sessions) * 7 + 3) % len(special)] + g.raw(2)
            info = g.rbytes(rnd.choice([0, 12]))
            if len(cw.sessions) % 4 == 1:
                info = pskid  # equal arguments: the identifier must still be hashed under its own label
            elif len(cw.sessions) % 4 == 3:
                info = psk
            for mode in gen.MODES:
                pa = dict(psk=psk, pskid=pskid) if mode in (1, 3) else {}
                sa = dict(sks="$kS.sk", pks="$kS.pk", **pa) if mode in (2, 3) else dict(pa)
                ra = dict(pks="$kS.pk", **pa) if mode in (2, 3) else dict(pa)
                s.call("setup_s", mode=mode, pkr="$kR.pk", info=info, rng=g.rbytes(nsk), out="S%d" % mode, **sa)
                s.call("export", ctx="S%d" % mode, exctx="-", len=32, probe=mode, side="S")
                s.call("setup_r", mode=mode, skr="$kR.sk", enc="$S%d.enc" % mode, info=info, out="R%d" % mode, **ra)
                s.call("export", ctx="R%d" % mode, exctx="-", len=32, probe=mode, side="R")
                if aead != 0xFFFF:
                    s.call("seal", ctx="S%d" % mode, api="alloc", pt="c15c15", aad="-", out="m%d" % mode)
                    s.call("open", ctx="R%d" % mode, api="alloc", ct="$m%d.full" % mode, aad="-")
    return cw


def monitor_validation(sess, extra):
    r = fw.MonResult()
    for op in sess.ops:
        if op.op != "psk_bundle":
            continue
        if op.ret is None:
            r.violation("C15:noreturn", "%s never returned" % op.id, sess, op)
            break
        a, b = op.b["psk"], op.b["pskid"]
        r.counts["evaluations"] += 1
        want_ok = (len(a) == 0) == (len(b) == 0)
        if want_ok and not op.ok():
            r.violation("C15:bundle_rejected:%s" % ("both_empty" if not a else "both_nonempty"), "PskBundle::new(psk %d bytes, psk_id %d bytes) failed with %s" % (len(a), len(b), op.outcome()), sess, op)
        elif not want_ok and op.outcome() != "err=InvalidPskBundle":
            r.violation("C15:lone_accepted:%s" % ("lone_psk" if a else "lone_id"), "PskBundle::new(psk %d bytes, psk_id %d bytes) returned %s instead of InvalidPskBundle" % (len(a), len(b), op.outcome()), sess, op)
        else:
            r.distinct.add(("bundle", len(a) if len(a) in LENS else "rand", len(b) if len(b) in LENS else "rand", bool(a) and not any(a)))
    if sess.ops and not r.samples:
        o = sess.ops[min(9, len(sess.ops) - 1)]
        r.samples.append({"call": o.raw[:160], "result": o.outcome()})
    return r


def hypotheses(sess, setup, role):
    """Re-evaluates the reference for this setup under alternative routings; yields (name, export32)"""
    su = R.suite(*sess.ids)
    k = su.kem
    mode = int(setup.args["mode"])
    psk = setup.b.get("psk", b"") or b""
    pskid = setup.b.get("pskid", b"") or b""
    info = setup.b["info"]
    try:
        if role == "S":
            pkR = k.deserialize_public(setup.b["pkr"])
            skS = k.deserialize_private(setup.b["sks"]) if mode in (2, 3) else None
            pkS = k.deserialize_public(setup.b["pks"]) if mode in (2, 3) else None
            ss, enc = k.encap(pkR, setup.b["rng"][: k.nsk], skS, pkS)
        else:
            skR = k.deserialize_private(setup.b["skr"])
            pkS = k.deserialize_public(setup.b["pks"]) if mode in (2, 3) else None
            ss = k.decap(setup.b["enc"], skR, pkS)
    except R.RefError:
        return
    Nh = su.nh
    cands = [("psk_and_psk_id_swapped", mode, pskid, psk), ("psk_dropped", mode, b"", pskid), ("psk_id_dropped", mode, psk, b""),
             ("both_dropped", mode, b"", b""), ("psk_zero_default_Nh", mode, b"\x00" * Nh, pskid), ("psk_used_as_both", mode, psk, psk),
             ("psk_id_used_as_both", mode, pskid, pskid)]
    for name, m, a, b in cands:
        yield ("routing:" + name, su.key_schedule(m, ss, info, a, b).export(b"", 32))
    for mb in range(256):
        if mb != mode:
            yield ("mode_byte:%d" % mb, su.key_schedule(mb, ss, info, psk, pskid).export(b"", 32))


def monitor_routing(sess, extra):
    r = fw.MonResult()
    ref = refinterp.RefSession(sess.ids)
    setups = {}
    status = {}  # mode -> "match" | ("mismatch", op, setup, role)
    for op in sess.ops:
        if op.ret is None:
            r.violation("C15:noreturn:%s" % op.op, "%s never returned" % op.id, sess, op)
            return r
        if op.op in ("setup_s", "setup_r"):
            setups[op.args["out"]] = op
        exp = ref.expect(op)
        if exp is None:
            continue
        mism = refinterp.compare(op, exp)
        if op.op in ("derive_keypair",):
            if mism:
                r.inconclusive.append("key derivation disagrees with the reference; routing cannot be judged here (C03 reports it)")
                return r
            continue
        name = op.args.get("out") if op.op in ("setup_s", "setup_r") else op.args.get("ctx")
        if name is None:
            continue
        mode = int(name[1])
        r.counts["evaluations"] += 1
        if mism:
            if mode not in status or status[mode] == "match":
                status[mode] = ("mismatch", op, setups.get(name), name[0], mism)
        else:
            status.setdefault(mode, "match")
    psk_family_ok = all(status.get(m) == "match" for m in (1, 3))
    nonpsk_family_ok = all(status.get(m) == "match" for m in (0, 2))
    for mode, st in sorted(status.items()):
        if st == "match":
            r.distinct.add((sess.ids, mode))
            r.counts["routing_cells_matching"] += 1
            continue
        _, op, setup, role, mism = st
        # what did the implementation export for this context?
        probe = [o for o in sess.ops if o.op == "export" and o.args.get("probe") == str(mode) and o.args.get("side") == role and o.ok()]
        explained = None
        if probe and setup is not None:
            got = probe[0].out("out")
            for name, val in hypotheses(sess, setup, role):
                if val == got:
                    explained = name
                    break
        fam = "psk" if mode in (1, 3) else "nonpsk"
        if explained and explained.startswith("routing:"):
            r.violation("C15:%s" % explained, "mode %d %s: the real code's export equals RFC 9180 evaluated with %s (%s)" % (
                mode, "sender" if role == "S" else "receiver", explained.split(":")[1].replace("_", " "), "; ".join(mism)[:200]), sess, op)
        elif explained and explained.startswith("mode_byte:"):
            r.counts["mismatch_attributed_to_mode_byte_not_C15"] += 1
        elif fam == "psk" and nonpsk_family_ok:
            r.violation("C15:psk_modes_only", "mode %d disagrees with the reference (%s) while the non-PSK modes of the same suite and keys agree, and no mode-byte change explains it" % (mode, "; ".join(mism)[:200]), sess, op)
        elif fam == "nonpsk" and psk_family_ok:
            r.violation("C15:defaults", "mode %d disagrees with the reference evaluated with empty psk/psk_id defaults (%s) while the PSK modes of the same suite and keys agree, and no mode-byte change explains it" % (mode, "; ".join(mism)[:200]), sess, op)
        else:
            r.counts["mismatch_not_attributable_left_to_C02"] += 1
    if sess.ops and not r.samples:
        o = [x for x in sess.ops if x.op == "setup_s" and x.args.get("mode") == "3"][:1]
        if o:
            r.samples.append({"session": sess.header, "call": o[0].raw[:260], "status": {m: (s if s == "match" else "mismatch") for m, s in status.items()}})
    return r


MONITORS = {"validation": monitor_validation, "routing": monitor_routing}


PROBE_MAIN = """// generated by props/c15.py: can a PskBundle be brought into a lone-half state without going through `new`?
use hpke::{aead::AesGcm128, kdf::HkdfSha256, kem::X25519HkdfSha256, Kem, OpModeS, PskBundle};
use hpke::rand_core::{CryptoRng, RngCore};
struct Z(u8);
impl RngCore for Z {
    fn next_u32(&mut self) -> u32 { self.0 = self.0.wrapping_add(1); self.0 as u32 }
    fn next_u64(&mut self) -> u64 { self.next_u32() as u64 }
    fn fill_bytes(&mut self, d: &mut [u8]) { for b in d.iter_mut() { *b = self.next_u32() as u8 } }
}
impl CryptoRng for Z {}
fn main() {
    let mut bundle = PskBundle::new(b"a pre-shared key of decent length", b"its identifier").unwrap();
    @MUTATE@
    println!("LONE_HALF_CONSTRUCTED");
    let (_, pk) = X25519HkdfSha256::derive_keypair(b"0123456789abcdef0123456789abcdef");
    let r = hpke::setup_sender::<AesGcm128, HkdfSha256, X25519HkdfSha256, _>(&OpModeS::Psk(bundle), &pk, b"", &mut Z(0));
    println!("SETUP_{}", if r.is_ok() { "ACCEPTED" } else { "REJECTED" });
}
"""


DESER_PROBE = """// generated by props/c15.py: PskBundle implements serde::Deserialize - does deserialization enforce the rule of new()?
use hpke::PskBundle;
use serde::de::value::{BorrowedBytesDeserializer, Error, SeqDeserializer};
use serde::Deserialize;
fn attempt(psk: &'static [u8], id: &'static [u8]) -> bool {
    let items: Vec<BorrowedBytesDeserializer<'static, Error>> = vec![BorrowedBytesDeserializer::new(psk), BorrowedBytesDeserializer::new(id)];
    let de = SeqDeserializer::<_, Error>::new(items.into_iter());
    let r: Result<PskBundle<'static>, Error> = PskBundle::deserialize(de);
    r.is_ok()
}
fn main() {
    println!("PROBE_STARTED");
    println!("BOTH {}", attempt(b"a pre-shared key of decent length", b"identifier"));
    println!("LONE_KEY {}", attempt(b"a pre-shared key of decent length", b""));
    println!("LONE_ID {}", attempt(b"", b"identifier"));
}
"""


def deserialize_probe(env, d):
    from lib import apisurface
    facts = apisurface.surface(d)
    de = [f for f in facts if f.startswith("impl Deserialize") and f.endswith("for PskBundle")]
    others = [f for f in facts if f.endswith(" for PskBundle") and f.split(" ")[1] not in ("Clone", "Copy", "Deserialize")]
    env.extra_cov["pskbundle_surface"]["trait_impls"] = [f for f in facts if f.endswith(" for PskBundle")]
    if others:
        env.note("PskBundle has trait impls the workloads do not know: %s" % others)
    if not de:
        return
    ok, out = apisurface.run_probe(env.work, "pskdeser", DESER_PROBE, extra_deps='serde = { version = "1", default-features = false }\n')
    env.count("evaluations", 1)
    if not ok:
        env.note("PskBundle implements Deserialize but the probe did not build or start: %s" % out[-400:])
        return
    got = dict(l.split(" ", 1) for l in out.splitlines() if l.startswith(("BOTH", "LONE_")))
    if got.get("BOTH") != "true":
        env.note("the Deserialize probe could not even build a valid bundle (format not as assumed): %s" % got)
        return
    for k in ("LONE_KEY", "LONE_ID"):
        if got.get(k) == "true":
            env.violation("C15:lone_half_constructible:deserialize", "PskBundle implements Deserialize and a %s is accepted (a sequence of two byte strings, one empty): a bundle that never met InvalidPskBundle" % (
                "lone key" if k == "LONE_KEY" else "lone identifier"), workload="validation")
            return
    env.seen("deserialize-probe")


def constructibility_probe(env):
    """'can be constructed exactly when ...': `PskBundle::new` is judged by the validation workload; here the compiled
    crate's surface is asked (rustdoc JSON) whether a bundle can be put into another state afterwards - through a
    public field - and if so a program that empties one half is compiled and run."""
    import os
    import subprocess
    from lib import apisurface
    d, why = apisurface.rustdoc_json()
    if d is None:
        env.note("PskBundle surface not inspected: %s" % why)
        env.extra_cov["pskbundle_surface"] = {"inspected": False, "why": why[:200]}
        return
    fields, hidden = apisurface.struct_fields(d, "PskBundle")
    pub = [f for f, p in (fields or []) if p]
    methods = [f for f in apisurface.surface(d) if f.startswith("method PskBundle::")]
    env.extra_cov["pskbundle_surface"] = {"inspected": True, "public_fields": pub, "has_private_fields": bool(hidden), "inherent_methods": methods}
    env.count("evaluations", 1)
    if fields is None:
        env.inconclusive.append("PskBundle not found in the crate's documented surface")
        return
    deserialize_probe(env, d)
    for f in pub:
        cdir = os.path.join(env.work, "pskfields")
        os.makedirs(os.path.join(cdir, "src"), exist_ok=True)
        with open(os.path.join(cdir, "Cargo.toml.in"), "w") as fh:
            fh.write('[package]\nname = "hpke-verif-probe-pskfields"\nversion = "0.0.0"\nedition = "2021"\npublish = false\n\n[dependencies]\n'
                     'hpke = { path = "@REPO@", default-features = false, features = ["alloc", "x25519"] }\n\n[workspace]\n')
        built = False
        for mut in ("bundle.%s = b\"\";" % f, "bundle.%s = &[];" % f, "bundle.%s = Default::default();" % f):
            with open(os.path.join(cdir, "src", "main.rs"), "w") as fh:
                fh.write(PROBE_MAIN.replace("@MUTATE@", mut))
            fw.prepare_crate(cdir)
            p = subprocess.run(["cargo", "run", "--offline", "--target-dir", os.path.join(fw.VERIF, "target", "probe")], cwd=cdir, env=dict(fw.BASE_ENV),
                               stdout=subprocess.PIPE, stderr=subprocess.STDOUT, text=True, timeout=1800)
            if "LONE_HALF_CONSTRUCTED" in p.stdout:
                built = True
                env.violation("C15:lone_half_constructible:field:%s" % f,
                              "PskBundle's field `%s` is public: `%s` on a valid bundle compiles and runs, giving a bundle with a lone half that never met InvalidPskBundle (%s)" % (
                                  f, mut, "setup accepted it" if "SETUP_ACCEPTED" in p.stdout else "setup rejected it later"), workload="validation")
                break
        if not built:
            env.note("PskBundle has a public field `%s` but no probe program emptied it (type not a byte slice?)" % f)


def run(env):
    constructibility_probe(env)
    res = env.drive("validation", build_validation(env, env.pick(3, 40)).text())
    env.require_complete(res, "validation")
    env.pmap(monitor_validation, res.sessions, workload="validation")
    res = env.drive("routing", build_routing(env, env.pick(1, 10)).text())
    env.require_complete(res, "routing")
    mr = env.pmap(monitor_routing, res.sessions, workload="routing")
    env.extra_cov["routing_sessions"] = len(res.sessions)
    if mr.counts["mismatch_not_attributable_left_to_C02"] or mr.counts["mismatch_attributed_to_mode_byte_not_C15"]:
        env.note("%d routing mismatches were not attributable to PSK routing (left to C02); %d attributed to a mode byte" % (
            mr.counts["mismatch_not_attributable_left_to_C02"], mr.counts["mismatch_attributed_to_mode_byte_not_C15"]))
    if not env.quick():
        # the emptiness rule on a 32-bit target: lengths whose product / sum overflows a 32-bit usize
        cw = cl.CaseW()
        s32 = cw.session(0x0020, 1, 1, sid="v32")
        for a, b in ((65536, 65536), (65536, 65535), (1 << 17, 1 << 15), (0, 65536), (65536, 0), (1, 1), (0, 0), (70000, 70000)):
            s32.call("psk_bundle", psk="@z:00:%d" % a if a else "-", pskid="@z:01:%d" % b if b else "-")
        sessions, note = fw.run_miri(env, "bundle-i686", cw.text(), target="i686-unknown-linux-gnu")
        env.extra_cov["bundle_validation_under_miri_i686"] = note
        if sessions is not None:
            env.pmap(monitor_validation, sessions, workload="validation", procs=1)
    if mr.counts["routing_cells_matching"] < 48 and not env.violations:
        raise fw.Inconclusive("routing could be judged for only %d (suite, mode) cells" % mr.counts["routing_cells_matching"])


def replay(env, path):
    import props.c15 as me
    fw.generic_replay(env, me, path)
