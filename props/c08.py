"""C08 - sender authentication: in Auth/AuthPsk a receiver expecting pkS only gets a working context
if the sender used the private key belonging to pkS; in the PSK modes the same holds for the PSK.
Differential monitor over the real code with a positive control per session."""
from lib import caselang as cl
from lib import framework as fw
from lib import gen

RULE = ("one case = one impostor sender (other key pair / right public key with a foreign private key / "
        "non-authenticated mode / PSK differing in one bit / other psk_id) whose ciphertext and 32/64-byte exports are "
        "presented to a receiver expecting the honest sender; distinct = distinct (kem, mode, impostor kind) and, for "
        "PSK bit flips, distinct bit positions")
ASSUMPTIONS = ["the honest sender is accepted in the same session (positive control), otherwise the session is inconclusive",
               "chance equality of >= 32-byte exports is ignored"]


def build(env, per_cell, psk_bits_all):
    g = gen.G(env.rnd)
    rnd = env.rnd
    cw = cl.CaseW()
    for kem in gen.KEMS:
        for mode in (2, 3, 1):
            for j in range(per_cell):
                kdf = rnd.choice(gen.KDFS)
                aead = rnd.choice(gen.SEAL_AEADS + ([0xFFFF] if j % 3 == 2 else []))
                sealing = aead != 0xFFFF
                s = cw.session(kem, kdf, aead, sid="a%d" % len(cw.sessions))
                pl = rnd.choice([1, 8, 32, 64, 65, 100, 129, 300]) if j else 32
                psk = g.raw(pl) if mode in (1, 3) else None
                pskid = g.raw(rnd.choice([1, 16])) if mode in (1, 3) else None
                info = g.rbytes(rnd.choice([0, 9]))
                m = gen.add_pair(s, g, kem, mode, info=info, psk=psk, pskid=pskid, rname="R")
                gen.add_keys(s, g, kem, "kI")  # impostor identity
                n = gen.nsk(kem)
                pt = g.rbytes(21)
                if sealing:
                    s.call("seal", ctx="S", api="alloc", pt=pt, aad="a1", out="h")
                for L in (32, 64):
                    s.call("export", ctx="S", exctx="-", len=L, role="honest_sender")
                    s.call("export", ctx="R", exctx="-", len=L, role="receiver")
                k = [0]

                def impostor(kind, smode, **sargs):
                    """an impostor sets up towards the same recipient; a fresh receiver (same
                    expectations as R) is built from the impostor's enc"""
                    i = k[0]
                    k[0] += 1
                    s.call("setup_s", mode=smode, pkr="$kR.pk", info=info, rng=g.rbytes(n), out="I%d" % i, kind=kind, **sargs)
                    if sealing:
                        s.call("seal", ctx="I%d" % i, api="alloc", pt=pt, aad="a1", out="f%d" % i)
                    rargs = dict(m["rargs"])
                    s.call("setup_r", mode=mode, skr="$kR.sk", enc="$I%d.enc" % i, info=info, out="V%d" % i, kind=kind, **rargs)
                    if sealing:
                        s.call("open", ctx="V%d" % i, api="alloc", ct="$f%d.full" % i, aad="a1", role="impostor", kind=kind)
                    for L in (32, 64):
                        s.call("export", ctx="I%d" % i, exctx="-", len=L, role="impostor_sender", kind=kind, pair=i)
                        s.call("export", ctx="V%d" % i, exctx="-", len=L, role="victim", kind=kind, pair=i)

                pskargs = dict(psk=psk, pskid=pskid) if mode in (1, 3) else {}
                if mode in (2, 3):
                    # immediately after the honest sender's setup (a memo keyed on public values would still be warm)
                    impostor("public_half_only", mode, sks="$kI.sk", pks="$kS.pk", **pskargs)
                    impostor("other_keypair", mode, sks="$kI.sk", pks="$kI.pk", **pskargs)
                    # honest again, then the impostor again: alternate so that any one-entry cache is hit both ways
                    s.call("setup_s", mode=mode, pkr="$kR.pk", info=info, rng=g.rbytes(n), out="S_again", **m["sargs"])
                    impostor("public_half_only", mode, sks="$kI.sk", pks="$kS.pk", **pskargs)
                    impostor("unauthenticated_mode", 1 if mode == 3 else 0, **pskargs)
                if mode in (1, 3):
                    auth = dict(sks="$kS.sk", pks="$kS.pk") if mode == 3 else {}
                    if psk_bits_all and pl <= 64:
                        bits = range(8 * pl)
                    else:
                        bits = sorted(set([0, 8 * pl - 1, 8 * 64 + 3, 8 * (pl - 2)] + [rnd.randrange(8 * pl) for _ in range(24)]))
                        bits = [b for b in bits if 0 <= b < 8 * pl]
                    for b in bits:
                        impostor("psk_bit:%d" % b, mode, psk=cl.hexs(psk) + "^flip:%d" % b, pskid=pskid, **auth)
                    impostor("psk_other_id", mode, psk=psk, pskid=cl.hexs(pskid) + "^flip:0", **auth)
                    impostor("psk_appended_zero", mode, psk=cl.hexs(psk) + "^app:00", pskid=pskid, **auth)
                    if pl > 1:
                        impostor("psk_prefix", mode, psk=cl.hexs(psk) + "^trunc:%d" % (pl - 1), pskid=pskid, **auth)
                    if pl > 64:
                        impostor("psk_prefix", mode, psk=cl.hexs(psk) + "^trunc:64", pskid=pskid, **auth)
                    impostor("no_psk", 2 if mode == 3 else 0, **auth)
                if mode == 2:
                    # the receiver's key objects parsed once, then asked "from kS?", "from kI?", "from kS?"
                    s.call("setup_r_reuse", mode=2, skr="$kR.sk", enc="$S.enc", info=info, pks="$kS.pk", pks2="$kI.pk", pks3="$kS.pk", role="reuse")
                    s.call("export", ctx="S", exctx="7265757365", len=32, role="reuse_sender")
                # positive control last: the honest message still opens on the honest receiver
                if sealing:
                    s.call("open", ctx="R", api="alloc", ct="$h.full", aad="a1", role="control")
    return cw


def monitor(sess, extra):
    r = fw.MonResult()
    honest = {}
    control = None
    exports_equal = True
    pend = {}
    findings = []
    mode = None
    for op in sess.ops:
        if op.ret is None:
            r.violation("C08:noreturn:%s" % op.op, "%s never returned" % op.id, sess, op)
            return r
        role = op.args.get("role")
        if op.op == "setup_r" and op.args.get("out") == "R":
            mode = op.args["mode"]
        if role == "honest_sender":
            honest[op.args["len"]] = op.ret.get("out")
        elif role == "receiver":
            exports_equal = exports_equal and op.ok() and honest.get(op.args["len"]) == op.ret.get("out")
        elif role == "control":
            control = op.ok()
        elif role == "impostor":
            kind = op.args["kind"]
            gk = kind.split(":")[0]
            if op.ok():
                findings.append(("C08:accepted:%s" % gk, "receiver in mode %s expecting the honest sender opened a ciphertext from an impostor (%s)" % (mode, kind), op))
            elif op.err() == "OpenError" or op.skipped() == "noctx":
                r.distinct.add((sess.ids[0], mode, kind))
                r.counts["impostor:%s" % gk] += 1
            r.counts["evaluations"] += 1
        elif role == "impostor_sender":
            pend[(op.args["pair"], op.args["len"])] = op.ret.get("out") if op.ok() else None
        elif role == "reuse" and op.ok():
            pend["reuse"] = op
        elif role == "reuse_sender" and op.ok() and "reuse" in pend:
            ro = pend["reuse"]
            r.counts["evaluations"] += 1
            if ro.ret.get("v0") != op.ret["out"] or ro.ret.get("v2") != op.ret["out"]:
                findings.append(("C08:reuse_honest_rejected", "a receiver reusing its parsed key objects does not share the honest sender's export", ro))
            if ro.ret.get("v1") == op.ret["out"]:
                findings.append(("C08:reuse_accepts_other_sender", "a receiver that reuses its parsed key objects and expects a DIFFERENT sender key derives the honest sender's secrets", ro))
            else:
                r.distinct.add((sess.ids[0], mode, "reused_objects"))
        elif role == "victim":
            mine = op.ret.get("out") if op.ok() else None
            theirs = pend.get((op.args["pair"], op.args["len"]))
            r.counts["evaluations"] += 1
            if mine is not None and mine != theirs:
                r.distinct.add((sess.ids[0], mode, op.args["kind"], "export", sess.ids[2] == 0xFFFF))
                if sess.ids[2] == 0xFFFF:
                    r.counts["impostor:%s" % op.args["kind"].split(":")[0]] += 1
            if mine is not None and mine == theirs:
                gk = op.args["kind"].split(":")[0]
                findings.append(("C08:shared_export:%s" % gk, "receiver in mode %s shares a %s-byte exported secret with an impostor sender (%s)" % (mode, op.args["len"], op.args["kind"]), op))
    if sess.ids[2] == 0xFFFF and control is None and honest:
        control = True  # export-only suites: the positive control is the pair of equal exports
    if control is not True or not exports_equal:
        if findings or control is not None:
            r.inconclusive.append("positive control failed in %s (honest sender not accepted) - impostor results are vacuous" % sess.sid)
        return r
    for sig, msg, op in findings:
        r.violation(sig, msg, sess, op)
    ops = [o for o in sess.ops if o.args.get("role") == "impostor"]
    if ops and not r.samples:
        o = ops[0]
        su = [x for x in sess.ops if x.op == "setup_s" and x.args.get("kind") == o.args["kind"]][0]
        r.samples.append({"session": sess.header, "impostor_setup": su.raw[:240], "victim_open": o.outcome()})
    return r


MONITORS = {"impostors": monitor}


def run(env):
    per, allbits = env.pick((3, True), (40, True))
    cw = build(env, per, allbits)
    res = env.drive("impostors", cw.text())
    env.require_complete(res, "impostors")
    mr = env.pmap(monitor, res.sessions, workload="impostors")
    from props.c13 import slice_text
    # release build (no debug assertions) and the std-feature build (std-only code paths), a slice each in quick
    # ... and what a fuzzing harness links (cfg(fuzzing) on every crate of the graph: checks get weakened under it)
    for b in ("fast", "checked-std", "cfg-fuzzing"):
        res_b = env.drive("impostors", slice_text(cw.text(), env.seed % 3, 3) if env.quick() else cw.text(), build=b)
        env.require_complete(res_b, "impostors/" + b)
        env.pmap(monitor, res_b.sessions, workload="impostors")
    env.extra_cov["sessions"] = len(res.sessions)
    need = ["impostor:other_keypair", "impostor:public_half_only", "impostor:unauthenticated_mode", "impostor:psk_bit", "impostor:no_psk"]
    missing = [k for k in need if mr.counts[k] < 4]
    if missing and not env.violations:
        raise fw.Inconclusive("impostor kinds not exercised: %s" % missing)


def replay(env, path):
    import props.c08 as me
    fw.generic_replay(env, me, path)
