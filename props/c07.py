"""C07 - context binding: a receiver whose setup differs from the sender's in one component cannot
open the sender's ciphertexts and exports different secrets.  Differential monitor over the real
code: every perturbed receiver is compared with the sender's own outputs; the unperturbed baseline
must work in the same session, otherwise the session is vacuous (inconclusive)."""
from lib import caselang as cl
from lib import framework as fw
from lib import gen
from ref import curves

RULE = ("one case = one perturbed receiver setup (exactly one component changed relative to a working baseline) "
        "followed by an open of the sender's ciphertext and 32/64-byte exports; distinct = distinct (kem, kdf, aead, "
        "mode, perturbation kind) combinations; perturbations that happen to leave every parameter byte-identical are skipped")
ASSUMPTIONS = ["equality of 32- or 64-byte exports by chance is ignored (2^-256)",
               "a perturbed setup that fails outright (e.g. an invalid encapsulated key) counts as 'shares no key material'"]

P25519 = 2**255 - 19


def string_perturbations(rnd, val_len, exhaustive_bits=True, cap=24):
    """transform suffixes applicable to a string argument of known length"""
    out = []
    nbits = 8 * val_len
    if exhaustive_bits and val_len <= 40:
        bits = list(range(nbits))
    else:
        # long strings: sampled positions plus the two ends and every 64-byte boundary region
        bits = set(rnd.randrange(nbits) for _ in range(min(nbits, cap)))
        bits |= {0, nbits - 1, nbits - 8}
        for off in (63, 64, 65, 127, 128, 129, 255, 256, 257, 270, 300):
            if off < val_len:
                bits.add(8 * off + rnd.randrange(8))
        bits = sorted(b for b in bits if 0 <= b < nbits)
    out += [("flip", "^flip:%d" % b) for b in bits]
    out += [("append00", "^app:00"), ("prepend00", "^pre:00"), ("append_rand", "^app:%02x" % rnd.randrange(1, 256))]
    if val_len:
        out += [("drop_last", "^trunc:%d" % (val_len - 1)), ("drop_first", "^skip:1")]
        if val_len > 1:
            out += [("empty", "^trunc:0")]
    return out


def build(env, baselines_per_suite, suites, full_bits):
    g = gen.G(env.rnd)
    rnd = env.rnd
    cw = cl.CaseW()
    n = 0
    for ids in suites:
        kem, kdf, aead = ids
        for b in range(baselines_per_suite):
            mode = n % 4
            n += 1
            s = cw.session(kem, kdf, aead, sid="c%d" % len(cw.sessions))
            il = rnd.choice([0, 1, 7, 20, 33, 300, 1000, 4097])
            pl, dl = rnd.choice([1, 16, 32, 33, 65, 100, 300, 2000]), rnd.choice([1, 5, 32, 70, 300, 1500])
            info = g.raw(il)
            psk = g.raw(pl) if mode in (1, 3) else None
            pskid = g.raw(dl) if mode in (1, 3) else None
            m = gen.add_pair(s, g, kem, mode, info=info, psk=psk, pskid=pskid, rname="R0")
            gen.add_keys(s, g, kem, "kX")
            sealing = aead != 0xFFFF
            if sealing:
                s.call("seal", ctx="S", api="alloc", pt=g.rbytes(rnd.choice([0, 1, 16, 45])), aad="0102", out="m0")
                s.call("open", ctx="R0", api="alloc", ct="$m0.full", aad="0102", role="baseline")
            for L in (32, 64):
                s.call("export", ctx="S", exctx="6578", len=L, role="sender")
                s.call("export", ctx="R0", exctx="6578", len=L, role="baseline")
            base = dict(mode=mode, skr="$kR.sk", enc="$S.enc", info=info)
            base.update(m["rargs"])
            k = [0]

            def perturbed(kind, **chg):
                a = dict(base)
                a.update(chg)
                name = "P%d" % k[0]
                k[0] += 1
                # drop PSK arguments for modes that do not take them
                if a["mode"] in (0, 2):
                    a.pop("psk", None)
                    a.pop("pskid", None)
                if a["mode"] in (0, 1):
                    a.pop("pks", None)
                s.call("setup_r", out=name, kind=kind, **a)
                if sealing and a.get("aead", "") != "ffff":
                    s.call("open", ctx=name, ct="$m0.full", aad="0102", role="perturbed", kind=kind)
                L = rnd.choice([32, 64])
                s.call("export", ctx=name, exctx="6578", len=L, role="perturbed", kind=kind)

            ih = cl.hexs(info)
            for kind, t in string_perturbations(rnd, il, full_bits):
                perturbed("info:" + kind, info=ih + t)
            if il == 0:
                perturbed("info:empty_vs_zero", info="00")
            if mode in (1, 3):
                ph, dh = cl.hexs(psk), cl.hexs(pskid)
                for kind, t in string_perturbations(rnd, pl, full_bits):
                    if kind == "empty":
                        continue  # lone psk_id is not a constructible bundle
                    perturbed("psk:" + kind, psk=ph + t)
                for kind, t in string_perturbations(rnd, dl, full_bits):
                    if kind == "empty":
                        continue
                    perturbed("psk_id:" + kind, pskid=dh + t)
                # boundary shifts between adjacent fields
                if il:
                    perturbed("shift:info_tail_to_psk_id_head", info=ih + "^trunc:%d" % (il - 1), pskid=dh + "^pre:%02x" % info[-1])
                    perturbed("shift:info_tail_to_psk_id_tail", info=ih + "^trunc:%d" % (il - 1), pskid=dh + "^app:%02x" % info[-1])
                if dl > 1:
                    perturbed("shift:psk_id_head_to_info_tail", info=ih + "^app:%02x" % pskid[0], pskid=dh + "^skip:1")
                    perturbed("shift:psk_id_tail_to_psk_head", pskid=dh + "^trunc:%d" % (dl - 1), psk=ph + "^pre:%02x" % pskid[-1])
                if pl > 1:
                    perturbed("shift:psk_tail_to_psk_id_head", psk=ph + "^trunc:%d" % (pl - 1), pskid=dh + "^pre:%02x" % psk[-1])
                perturbed("swap:psk_and_psk_id", psk=dh, pskid=ph)
            # mode swaps with identical PSK data
            if mode == 0:
                perturbed("mode:base_vs_psk_empty", mode=1, psk="-", pskid="-")
                perturbed("mode:base_vs_auth", mode=2, pks="$kX.pk")
            elif mode == 1:
                perturbed("mode:psk_vs_base", mode=0)
                perturbed("mode:psk_vs_authpsk", mode=3, pks="$kX.pk")
            elif mode == 2:
                perturbed("mode:auth_vs_authpsk_empty", mode=3, psk="-", pskid="-")
                perturbed("mode:auth_vs_base", mode=0)
            else:
                perturbed("mode:authpsk_vs_psk", mode=1)
                perturbed("mode:authpsk_vs_auth", mode=2)
            # suite components
            for okdf in gen.KDFS:
                if okdf != kdf:
                    perturbed("kdf:%d_vs_%d" % (kdf, okdf), kdf="%04x" % okdf)
            for oa in gen.ALL_AEADS:
                if oa != aead:
                    perturbed("aead:%04x_vs_%04x" % (aead, oa), aead="%04x" % oa)
            # recipient key pair
            perturbed("recipient_key:other", skr="$kX.sk")
            # encapsulated key
            s.call("setup_s", mode=0, pkr="$kR.pk", info=info, rng=g.rbytes(gen.nsk(kem)), out="S2")
            perturbed("enc:other_valid", enc="$S2.enc")
            if kem == 0x0020:
                bits = range(256) if full_bits else sorted(set([255, 0, 7] + [rnd.randrange(256) for _ in range(12)]))
                for bit in bits:
                    perturbed("enc:flip_bit255" if bit == 255 else "enc:flip", enc="$S.enc^flip:%d" % bit)
            else:
                npk = gen.npk(kem)
                for bit in sorted(set(rnd.randrange(8 * npk) for _ in range(6))):
                    perturbed("enc:flip", enc="$S.enc^flip:%d" % bit)
    return cw


def build_noncanonical_x25519(env, count):
    """X25519 encapsulated keys u and u+p denote the same group element, so the Diffie-Hellman value
    is unchanged, but the bytes in kem_context differ: the receiver must still not share the key.
    Needs an ephemeral public key below 19, which random keys never have, so the sender side is
    played by hand: enc is a small u-coordinate chosen by the generator and the 'sender' does not
    exist.  What is compared is receiver(u) against receiver(u+p)."""
    g = gen.G(env.rnd)
    cw = cl.CaseW()
    for i in range(count):
        aead = gen.ALL_AEADS[i % 4]
        s = cw.session(0x0020, gen.KDFS[i % 3], aead, sid="n%d" % i)
        gen.add_keys(s, g, 0x0020, "kR")
        u = [2, 3, 4, 6, 7, 9, 10, 12, 16, 18][i % 10]
        enc_a = u.to_bytes(32, "little")
        enc_b = (u + P25519).to_bytes(32, "little")
        info = g.rbytes(5)
        s.call("setup_r", mode=0, skr="$kR.sk", enc=enc_a, info=info, out="A", kind="enc:canonical_u")
        s.call("setup_r", mode=0, skr="$kR.sk", enc=enc_b, info=info, out="B", kind="enc:noncanonical_u_plus_p")
        for L in (32, 64):
            s.call("export", ctx="A", exctx="-", len=L, role="pair_a")
            s.call("export", ctx="B", exctx="-", len=L, role="pair_b")
    return cw


SETUP_KEYS = ("mode", "skr", "enc", "info", "psk", "pskid", "pks")


def monitor(sess, extra):
    r = fw.MonResult()
    sender_exp = {}
    base_args = None
    base_ok = True
    m0 = None
    perturbed = {}  # ctx name -> (kind, identical?)
    pair = {}
    for op in sess.ops:
        if op.ret is None:
            r.violation("C07:noreturn:%s" % op.op, "%s never returned" % op.id, sess, op)
            break
        role = op.args.get("role")
        if op.op == "setup_s" and op.args.get("out") == "S" and not op.ok():
            base_ok = False
        if op.op == "setup_r":
            if op.args.get("out") == "R0":
                base_args = op
                base_ok = base_ok and op.ok()
            elif "kind" in op.args and base_args is not None:
                same = all(op.b.get(k) == base_args.b.get(k) for k in ("skr", "enc", "info", "pks")) \
                    and (op.b.get("psk") or b"") == (base_args.b.get("psk") or b"") \
                    and (op.b.get("pskid") or b"") == (base_args.b.get("pskid") or b"") \
                    and op.args.get("mode") == base_args.args.get("mode") \
                    and op.args.get("kdf", "%04x" % sess.ids[1]) == "%04x" % sess.ids[1] \
                    and op.args.get("aead", "%04x" % sess.ids[2]) == "%04x" % sess.ids[2]
                perturbed[op.args["out"]] = (op.args["kind"], same, op.ok())
                if same:
                    r.counts["identity_perturbations_skipped"] += 1
        elif op.op == "seal" and op.args.get("out") == "m0":
            base_ok = base_ok and op.ok()
        elif op.op == "open" and role == "baseline":
            base_ok = base_ok and op.ok()
        elif op.op == "export" and role == "sender":
            if op.ok():
                sender_exp[op.args["len"]] = op.ret["out"]
            else:
                base_ok = False
        elif op.op == "export" and role == "baseline":
            base_ok = base_ok and op.ok() and op.ret.get("out") == sender_exp.get(op.args["len"])
        elif role == "perturbed":
            if not base_ok:
                r.inconclusive.append("baseline of session %s does not work; perturbations are vacuous" % sess.sid)
                return r
            kind, same, setup_ok = perturbed.get(op.args["ctx"], (op.args.get("kind"), False, False))
            if same or not setup_ok:
                continue
            r.counts["evaluations"] += 1
            comp = kind.split(":")[0]
            if op.op == "open":
                if op.ok():
                    r.violation("C07:opened:%s" % kind.split("_vs_")[0] if comp in ("kdf", "aead") else "C07:opened:%s" % kind,
                                "receiver whose %s differs from the sender's (%s) opened the sender's ciphertext" % (comp, kind), sess, op)
                    continue
            elif op.op == "export":
                if op.ok() and op.ret["out"] == sender_exp.get(op.args["len"]):
                    r.violation("C07:same_export:%s" % (kind.split("_vs_")[0] if comp in ("kdf", "aead") else kind),
                                "receiver whose %s differs from the sender's (%s) exported the same %s-byte secret as the sender" % (comp, kind, op.args["len"]), sess, op)
                    continue
            r.distinct.add((sess.ids, base_args.args.get("mode"), kind))
            r.counts["component:%s" % comp] += 1
        elif role in ("pair_a", "pair_b"):
            if op.ok():
                key = op.args["len"]
                if role == "pair_a":
                    pair[key] = op.ret["out"]
                else:
                    r.counts["evaluations"] += 1
                    if pair.get(key) == op.ret["out"]:
                        r.violation("C07:same_export:enc:noncanonical", "receivers set up with u and u+p as encapsulated key (same DH value, different bytes) export the same secret", sess, op)
                    else:
                        r.distinct.add((sess.ids, "0", "enc:noncanonical_u_plus_p"))
                        r.counts["component:enc_noncanonical"] += 1
    ops = [o for o in sess.ops if o.args.get("role") == "perturbed"]
    if ops and not r.samples:
        o = ops[len(ops) // 3]
        setup = [x for x in sess.ops if x.op == "setup_r" and x.args.get("out") == o.args["ctx"]][0]
        r.samples.append({"session": sess.header, "perturbed_setup": setup.raw[:260], "then": o.raw[:120], "result": o.outcome()})
    return r


MONITORS = {"perturb": monitor, "noncanonical": monitor}


def run(env):
    if env.quick():
        suites = gen.suites(sealing_only=False)
        per, full = 1, True
    else:
        suites = gen.suites(sealing_only=False)
        per, full = 4, True
    cw = build(env, per, suites, full)
    res = env.drive("perturb", cw.text())
    env.require_complete(res, "perturb")
    mr = env.pmap(monitor, res.sessions, workload="perturb")
    from props.c13 import slice_text
    res_f = env.drive("perturb", slice_text(cw.text(), env.seed % 4, 4) if env.quick() else cw.text(), build="fast")
    env.require_complete(res_f, "perturb/fast")
    env.pmap(monitor, res_f.sessions, workload="perturb")
    cw = build_noncanonical_x25519(env, env.pick(12, 60))
    res2 = env.drive("noncanonical", cw.text())
    env.require_complete(res2, "noncanonical")
    env.pmap(monitor, res2.sessions, workload="noncanonical")
    if not env.quick():
        # info / psk / psk_id of 2^32+5 bytes: one byte changed near the far end, and one near the front
        from lib import giant

        def judge(env, sess, op, big):
            r = op.ret
            if r.get("r_exp") != r.get("s_exp"):
                env.inconclusive.append("giant %s: unperturbed receiver does not agree with the sender (%s)" % (op.args["which"], r.get("r_exp", "")[:40]))
                return
            if r.get("p_exp") == r.get("s_exp"):
                env.violation("C07:giant:%s" % op.args["which"], "a receiver whose %s (2^32+5 bytes) differs from the sender's in byte %s derives the sender's context (same export)" % (
                    op.args["which"], op.args["flip"]), case_text=sess.case_text(op.id), workload="giant-strings")
        giant.run(env, "C07", ["info", "psk", "pskid"], [(0x0020, 1, 1)], judge)
        giant.run(env, "C07", ["info"], [(0x0011, 2, 2)], judge)
    env.extra_cov["baselines"] = len(res.sessions)
    comps = {k.split(":")[1] for k in env.counts if k.startswith("component:")}
    need = {"info", "psk", "psk_id", "mode", "kdf", "aead", "recipient_key", "enc", "shift"}
    if not need <= comps and not env.violations:
        raise fw.Inconclusive("components never perturbed: %s" % sorted(need - comps))


def replay(env, path):
    import props.c07 as me
    fw.generic_replay(env, me, path)
