#!/usr/bin/env python3
"""Regenerates /verif/MANIFEST.json from tools/manifest_data.py + which property modules exist."""
import json
import os
import subprocess
import sys

HERE = os.path.dirname(os.path.dirname(os.path.abspath(__file__)))
sys.path.insert(0, HERE)
from tools.manifest_data import CHECKS, ENGINES, NOTES  # noqa

props = [json.loads(l) for l in open(os.path.join(HERE, "properties.jsonl"))]
hook_commits = subprocess.run(
    ["git", "-C", "/repo", "log", "--format=%H %s", "--grep", "^verif hooks:"],
    stdout=subprocess.PIPE, text=True).stdout.strip().splitlines()
m = {
    "version": 1,
    "setup_cmd": "./check setup",
    "hooks": {
        "guard": "hpke_verif",
        "enable": "RUSTFLAGS=\"--cfg hpke_verif\" (a rustc cfg flag, set by ./check for every driver build; no cargo feature sets it)",
        "baseline_off_cmd": "cd /repo && cargo test --workspace --no-fail-fast --offline",
        "source_commits": [l.split()[0] for l in reversed(hook_commits)],
        "add_only": True,
    },
    "engines": ENGINES,
    "checks": [],
    "not_applicable": [],
    "notes": NOTES,
}
for p in props:
    pid = p["id"]
    have = os.path.exists(os.path.join(HERE, "props", pid.lower() + ".py"))
    d = CHECKS.get(pid)
    if have and d:
        m["checks"].append({
            "property_id": pid,
            "quick_cmd": "./check %s --tier quick" % pid,
            "thorough_cmd": "./check %s --tier thorough" % pid,
            "evidence_file": "evidence/%s.json" % pid,
            "replay_cmd_template": "./check replay {path}",
            "engine": d.get("engine", "driver+monitor"),
            "level_claimed": {"category": d.get("category", "exploration"), "text": d["text"], "design_ref": d["design_ref"]},
            "level_note": d["note"],
            "technique": d["technique"],
        })
    else:
        m["not_applicable"].append({"property_id": pid, "reason": "monitor not built yet in this revision of /verif (see DESIGN.md section 6 for the plan)"})
json.dump(m, open(os.path.join(HERE, "MANIFEST.json"), "w"), indent=1)
print("checks:", [c["property_id"] for c in m["checks"]], "n/a:", [c["property_id"] for c in m["not_applicable"]])
