#!/usr/bin/env python3
"""round 9 prompt: all properties, focus per agent, everything earlier listed"""
import json, sys, glob
wt = sys.argv[1]; tag = sys.argv[2]; n = sys.argv[3] if len(sys.argv) > 3 else "4"; focus = sys.argv[4] if len(sys.argv) > 4 else ""
props = [json.loads(l) for l in open('/verif/properties.jsonl')]
brief = [{"id": p["id"], "title": p["title"], "statement": p["statement"], "quantifier": p["quantifier"]["text"]} for p in props]
prior = []
for m in sorted(glob.glob('/verif/seeded/*/meta.json')):
    d = json.load(open(m))
    prior.append("  - [%s] %s" % (d["breaks_property"], d["needs_to_manifest"]))
print(f"""You are helping test a verification setup by producing realistic *property-breaking changes* to a Rust library.

The library is rozbb/rust-hpke (crate `hpke`, an RFC 9180 HPKE implementation). You have your own scratch git worktree of it at {wt} . Work ONLY inside {wt} (never touch /repo, never read or touch /verif). The sandbox has no network; `cargo` works offline (use `--offline`). Do NOT use `git stash` (it is shared between worktrees); use `git diff > file; git checkout -- .; git apply file`.

The library is supposed to satisfy these 18 semantic properties:

{json.dumps(brief, indent=1)}

Your job: produce {n} different candidate changes ("mutants") to the library source in the worktree, each of which
  1. BREAKS one of these properties (say which one and why),
  2. still COMPILES, and
  3. still PASSES the existing test suite unchanged: `cd {wt} && cargo test --workspace --no-fail-fast --offline` must report the same passing tests (35 unit tests + 1 doctest) - do not edit or delete existing tests.

This is a NINTH round. The library is guarded by dynamic checks: generated workloads over all ciphersuites/modes/KEMs with boundary, empty, huge (up to 2^32+ bytes in the deep tier) and swept input lengths; an independent RFC 9180 reference to compare every byte against (key schedule, KEM, exports, single-shot), including inputs that are equal to or derived from each other; adversarial delivery histories (replay, alias positions, tens of thousands of rejected messages, last sequence numbers); exhaustive bit flips and alternative framings of ciphertexts; constructed rare keys (small order, special Diffie-Hellman outputs, retry paths, invalid-curve points); serialization sweeps; panic/overflow/sanitizer runs on debug-checked and release builds; memory scans for un-wiped secrets (also in freed heap memory on the shipping build); all 64 feature subsets with output comparison; threads, migration, shared and reused objects, concurrent storms; 32-bit, big-endian and aarch64 interpretation under Miri; builds at several opt-levels, with target-cpu=native and with panic=abort; mock AEAD/KDF implementations plugged in through the public traits to reach error and retry paths; system-call tracing; threads with small (64 KiB) stacks, thread teardown, RNGs that call back into the library; inputs of 2^32+ bytes in every string role; builds with --cfg fuzzing; inspection of the compiled crate's public surface. Mock AEADs with 8-, 12- and 24-byte nonces that can be told to fail, a steerable KDF for the DeriveKeyPair loop, a pairwise covering set of build configurations (features x opt-level x panic strategy x target-cpu x debug assertions), library calls from destructors during unwinding and thread exit, 2^32 object constructions in one process, and probes generated from the compiled crate's public surface (new public fields, Clone impls, setter-shaped functions) exist as well. Mock AEADs also exist with a 13-byte nonce / 20-byte tag and can panic on request; after drops every writable mapping of the process except thread stacks is searched for the secrets and for keyed SHA-2 chaining values; 2^32 refused deliveries, 70 000 live contexts / exports / failed setups, and a compiler-version shim (rustc reporting 1.65 / 1.80) are exercised; builds with --cfg fuzzing run on most properties; Miri also interprets a 32-bit big-endian target. Of 224 earlier mutants 219 were caught; the 5 that escaped were a key left on the dead stack and four memo caches keyed by a 64-bit fingerprint of their input (indistinguishable without a hash collision) - do not submit further fingerprint-keyed memos.
{("Focus for you: " + focus) if focus else ""}
Your goal is to find changes that these checks are STILL likely to miss, while remaining something a maintainer could plausibly commit (an optimisation, a refactor, a hardening, a copy-paste slip) - not a backdoor keyed on a magic constant. Think about: API surface that is rarely called (doc-hidden public functions, trait default methods, Display/Debug/Clone/PartialEq impls, Default values), interactions between two API calls that are each fine alone, behaviours keyed on object identity or addresses, process-lifetime effects, inputs that are valid but pathological in a way no generator enumerates, arithmetic that only breaks for specific numeric relations, compile-time configuration other than cargo features (target, opt-level, panic strategy), and anything else you can think of.

Ideas that were ALREADY used (do not repeat them or close variants):
{chr(10).join(prior)}

The code contains some lines guarded by `#[cfg(hpke_verif)]` (verification hooks); leave those lines alone and do not rely on them.

For EACH mutant deliver, in the directory {wt}/../deliver-{tag}/<k>/ (k = 1, 2, ...; create it):
  - patch.diff : `git diff` of the change against the worktree's HEAD (source changes only, not the demonstration),
  - a demonstration: a small Rust test file (demo.rs to be dropped into {wt}/tests/ as an integration test using only the crate's public API) or an in-crate #[test] given as a separate diff demo.diff, or a shell script demo.sh (exit non-zero when the property is broken) - which FAILS with the change applied and PASSES without it. State exactly how to run it (keep any single demonstration under ~3 minutes and ~8 GiB of memory),
  - notes.md : which property it breaks, what exactly is needed for the break to manifest, why you think the checks described above would miss it, and the commands you ran with their outcomes.

Verify everything yourself by actually running the commands: (a) clean tree: demonstration passes; (b) mutant applied: existing suite still passes (35 + 1), demonstration fails. After you are done, leave the worktree CLEAN (git checkout -- . ; remove untracked demo files) - the deliverables live in the deliver-{tag} directory only.

Keep build output inside the worktree's own target/ directory. Report back a short summary: for each mutant one line saying which property, what it changes and what it needs to manifest, and whether all verification steps succeeded.""")
