#!/bin/bash
# confirms the round-5 deliveries, one worktree per agent, agents in parallel
# usage: confirm_round5.sh <outdir>
OUT=${1:-/tmp/confirm6}
AGENTS=${2:-"V W Y"}
mkdir -p "$OUT"
export CARGO_NET_OFFLINE=true CARGO_TERM_COLOR=never
T=/verif/tools/confirm_mutant.py

sh_demo() { # <deliver> <worktree>
    local d=$1 wt=$2 r
    (cd $wt && git checkout -q -- . && git clean -fdq -- src tests examples benches build.rs)
    bash $d/demo.sh $wt > $OUT/$(basename $(dirname $d))-$(basename $d).clean.log 2>&1; local c=$?
    (cd $wt && git apply $d/patch.diff) || { echo "{\"deliver\":\"$d\",\"error\":\"patch\"}"; return; }
    (cd $wt && cargo test --workspace --no-fail-fast --offline 2>&1 | grep "test result" | tr '\n' ' ') > $OUT/suite.$$.txt
    local s=$(cat $OUT/suite.$$.txt)
    bash $d/demo.sh $wt > $OUT/$(basename $(dirname $d))-$(basename $d).mutant.log 2>&1; local m=$?
    (cd $wt && git checkout -q -- . && git clean -fdq -- src tests examples benches build.rs)
    echo "{\"deliver\":\"$d\",\"clean_demo_rc\":$c,\"mutant_demo_rc\":$m,\"suite\":\"$s\"}"
}

agent() {
    local a=$1 wt=/tmp/mut-$1
    for k in 1 2 3 4; do
        d=/tmp/deliver-$a/$k
        if [ -f $d/demo.sh ]; then
            sh_demo $d $wt
        else
            case $a-$k in
                V-1|V-4|W-3|B7-4|F8-3) python3 $T $d $wt --release ;;
                V-2) python3 $T $d $wt --release --config profile.release.debug-assertions=true ;;
                I9-4|J9-3) python3 $T $d $wt --features p384,p521 ;;
                Y-4) RUSTFLAGS="--cfg fuzzing" python3 $T $d $wt ;;
                *) python3 $T $d $wt ;;
            esac
        fi
        (cd $wt && rm -f build.rs)
    done > $OUT/$a.jsonl 2>&1
}
for a in $AGENTS; do agent $a & done
wait
cat $OUT/*.jsonl
