#!/usr/bin/env python3
"""prints the prompt for a mutation sub-agent: property text + its scratch worktree, nothing from /verif"""
import json, sys
pid = sys.argv[1]
wt = sys.argv[2]
n = sys.argv[3] if len(sys.argv) > 3 else "2"
rnd = sys.argv[4] if len(sys.argv) > 4 else "1"
import glob, os
prior = []
if rnd != "1":
    for m in sorted(glob.glob('/verif/seeded/%s-*/meta.json' % pid)):
        prior.append("  - " + json.load(open(m))["needs_to_manifest"])
for l in open('/verif/properties.jsonl'):
    p = json.loads(l)
    if p['id'] == pid:
        break
print(f"""You are helping test a verification setup by producing a realistic *property-breaking change* to a Rust library.

The library is rozbb/rust-hpke (crate `hpke`, an RFC 9180 HPKE implementation). You have your own scratch git worktree of it at {wt} . Work ONLY inside {wt} (never touch /repo, never read or touch /verif). The sandbox has no network; `cargo` works offline (use `--offline`).

Here is one semantic property the library is supposed to satisfy (JSON record):

{json.dumps(p, indent=1)}

Your job: produce {n} different candidate changes ("mutants") to the library source in the worktree, each of which
  1. BREAKS this property (the library no longer satisfies the statement for some input / history / configuration),
  2. still COMPILES, and
  3. still PASSES the existing test suite unchanged: `cd {wt} && cargo test --workspace --no-fail-fast --offline` must report the same passing tests (35 unit tests + 1 doctest) — do not edit or delete existing tests.

Prefer changes that need something specific to manifest - a particular input length or value, a multi-step sequence of operations, an unusual configuration/feature set, a particular ciphersuite or mode, two cooperating sites that each look fine alone, a boundary value - NOT changes that ordinary use would expose at once. Make them the kind of mistake or "optimisation" a real maintainer could plausibly commit. The code contains some lines guarded by `#[cfg(hpke_verif)]` (verification hooks); leave those lines alone and do not rely on them.

{("This is a second round. Changes along the following lines have ALREADY been produced for this property - do NOT repeat them or close variants of them; look for different mechanisms, different code sites, different triggering conditions (other ciphersuites / KEMs / modes / features, other boundary values, other API entry points, other multi-step histories, state that only matters after many operations, cooperating changes in two files):" + chr(10) + chr(10).join(prior) + chr(10)) if prior else ""}
For EACH mutant deliver, in the directory {wt}/../deliver-{pid}/<k>/ (k = 1, 2, ...; create it):
  - patch.diff : `git diff` of the change against the worktree's HEAD (source changes only, not the demonstration),
  - a demonstration: a small Rust test file or program (e.g. demo.rs to be dropped into {wt}/tests/ as an integration test, using only the crate's public API, or an in-crate #[test] given as a separate diff demo.diff) that FAILS with the change applied and PASSES without it. State exactly how to run it,
  - notes.md : which property it breaks, what exactly is needed for the break to manifest, and the commands you ran with their outcomes (existing tests with the mutant; demonstration with and without the mutant).

Verify everything yourself by actually running the commands: (a) clean tree: demonstration passes; (b) mutant applied: existing suite still passes (35 + 1), demonstration fails. After you are done, leave the worktree CLEAN (git checkout -- . ; remove untracked demo files) - the deliverables live in the deliver-{pid} directory only.

Keep build output inside the worktree's own target/ directory. Report back a short summary: for each mutant one line saying what it changes and what it needs to manifest, and whether all verification steps succeeded.""")
