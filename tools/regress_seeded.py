#!/usr/bin/env python3
"""Mutation campaign only: re-runs seeded changes against the checks that caught them before (first quick check listed in
meta.json), in a mutlab lab.   usage: regress_seeded.py <lab> <k> <n>   (takes every n-th seeded change starting at k)"""
import glob, json, os, re, subprocess, sys
lab, k, n = sys.argv[1], int(sys.argv[2]), int(sys.argv[3])
metas = sorted(glob.glob("/verif/seeded/*/meta.json"))
todo = []
for mp in metas:
    m = json.load(open(mp))
    q = m.get("caught_by_quick_checks") or []
    if isinstance(q, dict):
        q = sorted(q)
    if q and m.get("round", 1) <= 4:
        todo.append((os.path.dirname(mp), m.get("id", os.path.basename(os.path.dirname(mp))), q[0]))
todo = todo[k::n]
for d, mid, chk in todo:
    p = subprocess.run([sys.executable, "/verif/tools/mutlab.py", lab, os.path.join(d, "patch.diff"), chk], stdout=subprocess.PIPE, stderr=subprocess.STDOUT, text=True)
    m = re.search(r"%s exit=(\d)" % chk, p.stdout)
    print("%s %s %s" % (mid, chk, "CAUGHT" if m and m.group(1) == "1" else "NOT-CAUGHT exit=%s %s" % (m.group(1) if m else "?", p.stdout[-200:].replace("\n", " "))), flush=True)
