#!/usr/bin/env python3
"""Confirms a delivered mutant in a scratch worktree:
   clean + demo passes; mutant + existing suite passes (35+1); mutant + demo fails.
usage: confirm_mutant.py <deliver_dir> <worktree> [extra cargo test args for the demo...]"""
import glob
import json
import os
import re
import subprocess
import sys

d, wt = os.path.abspath(sys.argv[1]), os.path.abspath(sys.argv[2])
extra = sys.argv[3:]
E = dict(os.environ, CARGO_NET_OFFLINE="true", CARGO_TERM_COLOR="never")


def sh(cmd, **kw):
    p = subprocess.run(cmd, cwd=wt, env=E, stdout=subprocess.PIPE, stderr=subprocess.STDOUT, text=True, **kw)
    return p.returncode, p.stdout


def clean():
    sh(["git", "checkout", "--", "."])
    sh(["git", "clean", "-fdq", "--", "src", "tests", "examples", "benches"])


def install_demo():
    """returns cargo test args that run the demonstration"""
    rs = glob.glob(os.path.join(d, "*.rs"))
    dd = os.path.join(d, "demo.diff")
    if os.path.exists(dd):
        rc, o = sh(["git", "apply", dd])
        if rc != 0:
            return None, "demo.diff does not apply: " + o
        names = re.findall(r"^\+\s*fn (\w+)\s*\(", open(dd).read(), re.M)
        mods = re.findall(r"^\+\s*mod (\w+)", open(dd).read(), re.M)
        filt = mods[0] if mods else (os.path.commonprefix(names) if names else "demo")
        return ["--lib", filt], None
    if rs:
        os.makedirs(os.path.join(wt, "tests"), exist_ok=True)
        name = "vdemo"
        with open(os.path.join(wt, "tests", name + ".rs"), "w") as fh:
            fh.write(open(rs[0]).read())
        return ["--test", name], None
    return None, "no demonstration found"


def run_demo(args, prefer=None):
    order = [[], ["--features", "std"], ["--all-features"]]
    if prefer is not None:
        order = [prefer]
    for feats in order:
        rc, o = sh(["cargo", "test", "--offline"] + feats + args + extra, timeout=3000)
        m = re.findall(r"test result: (\w+)\. (\d+) passed; (\d+) failed", o)
        if m:
            passed = sum(int(x[1]) for x in m)
            failed = sum(int(x[2]) for x in m)
            if passed + failed > 0:
                return {"rc": rc, "passed": passed, "failed": failed, "features": feats}
        if prefer is not None and "could not compile" in o:
            return {"rc": rc, "passed": 0, "failed": 0, "features": feats, "compile_error": True, "tail": o[-400:]}
    return {"rc": rc, "passed": 0, "failed": 0, "tail": o[-600:]}


res = {"deliver": d}
clean()
args, err = install_demo()
if err:
    res["error"] = err
    print(json.dumps(res))
    sys.exit(1)
res["clean_demo"] = run_demo(args)
clean()
rc, o = sh(["git", "apply", os.path.join(d, "patch.diff")])
if rc != 0:
    res["error"] = "patch does not apply: " + o
    print(json.dumps(res))
    sys.exit(1)
rc, o = sh(["cargo", "test", "--workspace", "--no-fail-fast", "--offline"], timeout=3000)
m = re.findall(r"test result: (\w+)\. (\d+) passed; (\d+) failed", o)
res["mutant_suite"] = {"rc": rc, "passed": sum(int(x[1]) for x in m), "failed": sum(int(x[2]) for x in m)}
args, err = install_demo()
res["mutant_demo"] = run_demo(args, prefer=res["clean_demo"].get("features")) if not err else {"error": err}
if res["mutant_demo"].get("failed", 0) == 0 and not res["mutant_demo"].get("compile_error") and res["clean_demo"].get("features") == []:
    # the demonstration may need a non-default feature set to see the change
    for feats in (["--features", "std"], ["--all-features"]):
        clean()
        a2, _ = install_demo()
        c2 = run_demo(a2, prefer=feats)
        if c2["passed"] > 0 and c2["failed"] == 0:
            sh(["git", "apply", os.path.join(d, "patch.diff")])
            m2 = run_demo(a2, prefer=feats)
            if m2.get("failed", 0) > 0 or m2.get("compile_error"):
                res["clean_demo"], res["mutant_demo"] = c2, m2
                break
        clean()
clean()
ok = (res["clean_demo"]["failed"] == 0 and res["clean_demo"]["passed"] > 0 and res["mutant_suite"]["rc"] == 0
      and res["mutant_suite"]["passed"] == 36 and (res["mutant_demo"].get("failed", 0) > 0 or res["mutant_demo"].get("compile_error")))
res["confirmed"] = ok
print(json.dumps(res))
