"""Per-check manifest text.  Kept next to the code so MANIFEST.json can be regenerated."""

TRUST = ("Trusted: the driver's reporting (cross-checked by argument fingerprints), Python's hashlib/hmac, "
         "OpenSSL's AES-GCM/ChaCha20-Poly1305 where the reference AEAD is used, and my reading of RFC 9180 "
         "(anchored on RFC 9180 A.1.1/A.3.1, RFC 7748, RFC 8439, RFC 5869, RFC 5903 vectors and a libcrypto "
         "cross-check of the curve arithmetic at the start of every run). A run is a sample, not a proof.")

ENGINES = [
    {"name": "driver", "path": "harness/", "serves_properties": ["C%02d" % i for i in range(1, 19)],
     "kind_free_text": "Rust interpreter of case files over the real hpke crate (public API + cfg(hpke_verif) hooks), every call under catch_unwind, scripted RNG, schedulers; also built under ASan/TSan/Miri/valgrind"},
    {"name": "reference", "path": "ref/", "serves_properties": ["C02", "C03", "C04", "C09", "C10", "C11", "C15"],
     "kind_free_text": "independent executable RFC 9180 in Python (hashlib HKDF, integer NIST curves, RFC 7748 ladder, OpenSSL AEAD via ctypes) with an anchoring self-test"},
    {"name": "monitors", "path": "props/", "serves_properties": ["C%02d" % i for i in range(1, 19)],
     "kind_free_text": "offline checkers over the recorded event logs: abstract state machines, differential and reference comparison, completeness accounting"},
]

NOTES = ("Every check is `generate (seeded) -> drive the real crate -> monitor the event log`; verdicts are three-valued "
         "(0 held, 1 VIOLATION, 2 INCONCLUSIVE - never folded). See DESIGN.md.")

CHECKS = {
    "C01": dict(
        technique="runtime monitoring: self-consistency oracle over recorded seal/open event logs of the real sender and receiver",
        text="Exploration: seeded workloads over all 144 suite/mode cells with boundary-length inputs, lagging receivers and all API pairings; the oracle checks each in-order delivery against the plaintext that was sealed and the length relations. Sampling is the right level: the space is unbounded and the failure modes (one cell, one length class) are reached by structured coverage.",
        design_ref="DESIGN.md 6/C01", note=TRUST),
}
