"""Per-check manifest text.  Kept next to the code so MANIFEST.json can be regenerated."""

TRUST = ("Trusted: the driver's reporting (cross-checked by argument fingerprints), Python's hashlib/hmac, "
         "OpenSSL's AES-GCM/ChaCha20-Poly1305 where the reference AEAD is used, and my reading of RFC 9180 "
         "(anchored on RFC 9180 A.1.1/A.3.1, RFC 7748, RFC 8439, RFC 5869, RFC 5903 vectors and a libcrypto "
         "cross-check of the curve arithmetic at the start of every run). A run is a sample, not a proof.")

ENGINES = [
    {"name": "driver", "path": "harness/", "serves_properties": ["C%02d" % i for i in range(1, 19)],
     "kind_free_text": "Rust interpreter of case files over the real hpke crate (public API + cfg(hpke_verif) hooks), every call under catch_unwind, scripted RNG, schedulers; also built under ASan/TSan/Miri/valgrind"},
    {"name": "reference", "path": "ref/", "serves_properties": ["C02", "C03", "C04", "C09", "C10", "C11", "C15"],
     "kind_free_text": "independent executable RFC 9180 in Python (hashlib HKDF, integer NIST curves, RFC 7748 ladder, OpenSSL AEAD via ctypes) with an anchoring self-test"},
    {"name": "monitors", "path": "props/", "serves_properties": ["C%02d" % i for i in range(1, 19)],
     "kind_free_text": "offline checkers over the recorded event logs: abstract state machines, differential and reference comparison, completeness accounting"},
]

NOTES = ("Every check is `generate (seeded) -> drive the real crate -> monitor the event log`; verdicts are three-valued "
         "(0 held, 1 VIOLATION, 2 INCONCLUSIVE - never folded). See DESIGN.md.")

CHECKS = {
    "C01": dict(
        technique="runtime monitoring: self-consistency oracle over recorded seal/open event logs of the real sender and receiver",
        text="Exploration: seeded workloads over all 144 suite/mode cells with boundary-length inputs, empty plaintexts and empty PSK bundles, lagging receivers, all API pairings incl. both single-shot forms, self-addressed Auth sessions; run on the overflow-checked and on the release build; thorough adds 66 000-message sessions and one message of 2^32+5 bytes per AEAD. The oracle checks each in-order delivery against the plaintext that was sealed and the length relations.",
        design_ref="DESIGN.md 6/C01", note=TRUST),
    "C02": dict(
        technique="runtime monitoring: differential oracle - every recorded result of the real code compared byte-for-byte with an independent executable RFC 9180 (both directions)",
        text="Exploration with an independent reference: all 48 suites x 4 modes (plus 6 suites over a mock KEM plugged in through the public Kem trait, 96-byte sizes), impl-as-sender under scripted RNG bytes and reference-as-sender transcripts, both single-shot forms, argument-aliasing sessions (info = psk_id, randomness that derives a key already in play, enc = pkR, ...), length sweeps 0..2200 of exporter context / info / psk / psk_id / aad, 300-message (thorough 70 000) sessions; on the overflow-checked and the release build and two mixed configurations (thorough: the pairwise covering set of build configurations, also at opt-level 0, 1, s, z and with target-cpu=native, and with info / psk / psk_id / exporter context / ikm strings of 2^32+5 bytes). Any symmetric change to labels, ids, orders, mode bytes or nonce layout shows up as a byte difference. The reference is anchored on published vectors at the start of each run.",
        design_ref="DESIGN.md 3, 6/C02", note=TRUST),
    "C03": dict(
        technique="runtime monitoring: differential oracle for the KEM layer (DeriveKeyPair/GenerateKeyPair/Encap/Decap/Auth variants) against the reference, with directed rare-event inputs",
        text="Exploration: 4 KEMs, ikm lengths 0..65536, degenerate ikm, plain and authenticated encap/decap (incl. mismatched identity pairs, enc = pkR), decap of reference encapsulations; directed rare events: three precomputed ikm values drive the P-256 rejection-sampling retry path (2^-32), peers constructed so that the DH value has x = 0 / leading zero bytes (NIST) or one of 26 zero-byte patterns (X25519), private keys sharing long prefixes used back to back; on checked, release and std builds. DeriveKeyPair's candidate loop is additionally driven with a steerable hash plugged into the crate's generic code through a cfg(hpke_verif) hook (rejection runs of every length up to 255, all 256 rejected, candidates around n, P-521 high bits on every iteration), against a generic HKDF reference over the same function.",
        design_ref="DESIGN.md 6/C03", note=TRUST + " With the KEM's own hash the P-384/P-521 retry path is unreachable (p < 2^-190); it is exercised with a KDF other than the KEM's."),
    "C04": dict(
        technique="runtime monitoring: abstract state machine (counter + latch) stepped in lock-step with the real sender context; every ciphertext recomputed with OpenSSL under the model's nonce; sort-based nonce-reuse detector over bursts",
        text="Exploration of the 2^64 counter space by structure: a full prefix (2^20 quick / 2^24 thorough seals per AEAD) for uniqueness, every byte-carry boundary, the last values before and after exhaustion, seeded random positions, arbitrary call histories on dead contexts; thorough: 64.5 GiB through one context per AEAD and the raw-key workload interpreted by Miri for i686, s390x, aarch64, powerpc (32-bit big-endian) and two target x feature conjunctions, and positions at opt-level 0, 1, s, z and target-cpu=native. Seals that fail (SealError) are driven with mock AEADs implementing the crate's public Aead trait (nonce sizes 8, 12, 13 and 24 bytes, tags of 16, 20 and 32 bytes, keys of 32 and 64 bytes, one with tag-first attached forms; they can fail or panic on request) whose tag echoes the nonce: a failed seal must not consume a sequence number or set the latch, also exactly at 2^64-1, and the counter sits in the last 8 bytes of a nonce of any size. Mixed build configurations (no-alloc + panic=abort + opt-level s + native CPU; std + panic=abort + opt-level z) and a build whose compiler fails every build-script feature probe every time, a pairwise covering set of 15 configurations in the thorough tier. Contexts are built from raw key material through a cfg(hpke_verif) hook so the monitor does not depend on the key schedule.",
        design_ref="DESIGN.md 6/C04", note=TRUST + " Positions beyond the burst prefix are reached with the set_seq hook."),
    "C05": dict(
        technique="runtime monitoring: offline checker of recorded delivery histories against an abstract receiver model (position + latch); acceptance decided from recorded bytes only",
        text="Exploration of adversarial histories (next/replay/future/bit-flips/truncation/extension/garbage/mixed tag/alias replays at p + k*2^(8j), both APIs, positions 0, random, byte carries, 2^64-3.. across exhaustion), a run of 66 000+ rejected deliveries on one context, on checked and release builds; genuine AES-GCM messages constructed to carry chosen tag values (all-zero, all-FF, ..., and the tag of an earlier message of the same context) must be accepted; AEAD panics inside open (mock AEADs) must leave the receiver where it was; thorough: 2^32+16 refused deliveries on one receiver, alias replays under Miri for i686, s390x and aarch64. Found F1 (open() on an exhausted context answered short inputs with OpenError), fixed in /repo 7e92e6f.",
        design_ref="DESIGN.md 6/C05, 7", note=TRUST),
    "C06": dict(
        technique="runtime monitoring: tamper oracle over recorded opens - any delivered (ct, tag, aad) that differs from what the sender produced must yield OpenError on all four opening interfaces",
        text="Exploration with exhaustive single-bit flips for small messages (every bit of ct, tag and aad), every truncation length, extensions of ct/aad/tag, cross-message substitutions, alternative framings of the genuine bytes (tag first, rotated, reversed, enc/pkR/tag glued on), messages at the last sequence numbers, aad beyond 65535 bytes, a run of 66 000 modified messages against one receiver, directed tags ending in zero bytes; streaming and single-shot, allocating and in-place; a control open per message keeps the receiver positioned; slices on the release build and on a build with --cfg fuzzing.",
        design_ref="DESIGN.md 6/C06", note=TRUST),
    "C07": dict(
        technique="runtime monitoring: differential perturbation oracle - one setup component changed on the receiver, then open and 32/64-byte exports compared with the sender's own",
        text="Exploration: every suite, every single-bit flip of info/psk/psk_id (<= 40 bytes), prefix/suffix edits, boundary shifts between fields, mode swaps with identical PSK data, other KDF/AEAD (same key bytes presented to a receiver of another suite), other recipient key, other/bit-flipped/non-canonical encapsulated keys; baseline must work or the session is inconclusive; thorough: info / psk / psk_id of 2^32+5 bytes differing in one byte near either end.",
        design_ref="DESIGN.md 6/C07", note=TRUST),
    "C08": dict(
        technique="runtime monitoring: impostor oracle - ciphertexts and exports of senders lacking the identity key or PSK presented to a receiver expecting the honest sender, with a positive control",
        text="Exploration: 4 KEMs x {Auth, AuthPsk, Psk}; other key pair, right public key with foreign private key, unauthenticated mode, every single-bit PSK flip (PSK <= 64 bytes), other psk_id, no PSK.",
        design_ref="DESIGN.md 6/C08", note=TRUST),
    "C09": dict(
        technique="runtime monitoring: verdict oracle - from_bytes results compared with an explicit SEC1/range decision procedure on Python integers over constructed hostile encodings",
        text="Exploration by construction: invalid-curve and twist points, non-canonical coordinates (x+p, y+p), identity encodings, all 255 foreign tag bytes, compressed forms, every length, scalars 0/n-1/n/n+1/2^k-1 and P-521 high bits, for 3 curves x {public, encapsulated, private}.",
        design_ref="DESIGN.md 6/C09", note=TRUST),
    "C10": dict(
        technique="runtime monitoring: exhaustive enumeration of the 14 small-order X25519 encodings in every role/mode/entry point, judged by a reference RFC 7748 ladder; sampled negatives",
        text="The positive part (14 encodings x {pkR, enc, pkS} x 4 modes x setup/encap/decap/single-shot) is enumerated completely (evidence exhaustive: true for that part); negatives (neighbours, random strings, peers constructed so that the DH output is zero on chosen limbs/halves) are sampled; thorough repeats the enumeration on builds with target-cpu=native, opt-level s and 0, and the release build.",
        design_ref="DESIGN.md 6/C10", note=TRUST),
    "C11": dict(
        technique="runtime monitoring: export oracle - LabeledExpand recomputed in Python from the exporter secret the live context reports through a hook; purity/symmetry checks across recorded histories; panic observation for export-only suites",
        text="Exploration: 192 suite/mode cells, both roles, exporter contexts up to 64 KiB, lengths around every bound (every L within 40 of 255*Nh; thorough: every L in 0..16400), exports interleaved with seals, opens and failed opens, after exhaustion, after 66 000 rejected opens and after every caught export-only panic; thorough: an exporter context of 2^32+5 bytes; a panic=abort build of the driver runs each export-only seal/open form as the last call of its own process, which must die by SIGABRT with the library's panic message.",
        design_ref="DESIGN.md 6/C11", note=TRUST),
    "C12": dict(
        technique="runtime monitoring: serialization oracle - sizes vs the RFC table, round trips, re-serialization, exact error payloads and write_exact panic behaviour for every length 0..2*size+2",
        text="Exploration with exhaustive length sweeps for 4 KEMs x {public, private, encapsulated} and 4 tag types; values from the library, from the reference and arbitrary accepted strings.",
        design_ref="DESIGN.md 6/C12", note=TRUST),
    "C13": dict(
        technique="sanitizers + panic/abort monitor: one hostile workload replayed under overflow-checked, release and AddressSanitizer builds (thorough: valgrind memcheck, Miri, coverage census); every call under catch_unwind with call-before-invoke logging",
        text="Exploration of every byte-consuming entry point over all 144 cells with malformed, boundary-length and 64 KiB (thorough 1 MiB) inputs; a panic, an abort, an overflow trap, a sanitizer report or a wrong setup error class is a violation; the workload also runs with every session on a 64 KiB-stack thread (a stack overflow is an abort); thorough: memcheck, Miri, messages and strings of 2^32+5 bytes on the debug-assertion build.",
        design_ref="DESIGN.md 5, 6/C13", note=TRUST + " Sanitizers see only code the workload reaches."),
    "C14": dict(
        technique="runtime monitoring: differential oracle inside one session - single-shot vs composed calls under identical scripted RNG bytes, allocating vs in-place forms on twin contexts",
        text="Exploration: 144 cells, success paths with boundary lengths and every failure path (small-order/invalid enc or pkR, wrong key, wrong info/aad, flipped and short tags, short ciphertexts, two causes at once, empty PSK bundle, export-only suites, and a seal that fails inside the AEAD - driven with a mock AEAD through the public trait).",
        design_ref="DESIGN.md 6/C14", note=TRUST),
    "C15": dict(
        technique="runtime monitoring: validation oracle for PskBundle::new plus reference comparison with hypothesis-based attribution (swapped / dropped psk or psk_id, mode byte) before a mismatch is reported",
        text="Exploration: all emptiness combinations at 8 lengths (incl. all-zero non-empty strings); routing for all 48 suites x 4 modes. A mismatch is only a C15 violation when a PSK-routing hypothesis reproduces the real output or it is confined to one mode family. Whether a bundle can be brought into a lone-half state other than through new() is asked of the compiled crate's surface (rustdoc JSON): a public field is emptied by a generated program.",
        design_ref="DESIGN.md 6/C15", note=TRUST),
    "C16": dict(
        technique="runtime monitoring: memory-observing monitors - slot photographs around drop_in_place, liveness probe (in-place inversion of every sighting + behaviour comparison), transformed-copy needles, freed-memory residue seen by the driver's own allocator (also on the shipping build: guard off, release), plus a drop-ledger hook",
        text="Exploration over suites/modes/roles and directed degenerate-looking secrets: shared secret, base nonce and exporter secret must be sighted in the object's own storage before the drop and wiped after; every live copy (one whose inversion changes the context's behaviour), raw or transformed, must be wiped; a context's heap block may hold nothing live when it is freed - checked on the build a user ships, where nothing inside the crate reads the wiped bytes; every setup must drop the temporary AEAD key and the shared secret with no nonzero residue; drops performed by the unwinder (object owned by a panicking frame) are judged the same way, on the alloc and std builds; keyed SHA-2 chaining values (a pre-keyed HMAC) count as copies of the exporter secret; after ordinary drops every writable mapping of the process except the thread stacks is searched for the secrets (copies parked in statics, thread-locals or leaked blocks).",
        design_ref="DESIGN.md 6/C16", note=TRUST + " Only the object's own storage is inspected; stale copies in dead bytes carried by moves are counted, not judged."),
    "C17": dict(
        technique="runtime monitoring over configurations: crate tests, corpus replay of the driver vs the all-features build, API presence probes, examples and bench, guard on/off comparison, per feature subset",
        text="Enumeration of feature subsets (quick: 14 subsets covering singles, defaults, all and KEM pairs; thorough: all 64, exhaustive: true): crate tests, corpus replay vs the all-features build (hostile and long inputs, sibling keys, error strings), API presence probes, examples under the required-features declared in the manifest, bench, guard on/off; for every subset without std, cargo tree must show no dependency with its std feature on. Build outcomes are observed by running the compiler and labelled as such; the deciding observations are test runs and output comparisons.",
        design_ref="DESIGN.md 6/C17", note=TRUST, category="exploration"),
    "C18": dict(
        technique="runtime monitoring + race detection: per-session transcripts under permuted, interleaved, threaded, migrating placements on alloc, std and no-alloc builds compared with the sequential run; history probes; shared-reference exports, shared and reused key objects, decapsulation storms; hang analysis; ThreadSanitizer (thorough: Miri); compile-time Send+Sync probe",
        text="Exploration of placements with schedule evidence (threads used, session switches, distinct global orders observed); a run whose parallel placements never overlapped is inconclusive. Process-level dependencies: every session on a 64 KiB-stack thread; an RNG that itself uses the library (key generation + round trip) before every draw; a round trip from a destructor while a panic unwinds; thorough: 2^32 private-key objects constructed in one process before fresh keys are used; sessions in a driver that creates no thread, traced with strace (any clone with CLONE_THREAD is the library's), and a round trip made from a thread-local destructor while its thread exits.",
        design_ref="DESIGN.md 6/C18", note=TRUST),
}
