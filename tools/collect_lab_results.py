#!/usr/bin/env python3
"""Mutation campaign only: parses tools/mutlab.py logs ("### <agent> <k> [--tier thorough] checks" / "Cnn exit=..") and
writes the outcome into seeded/<round>-<agent>-<k>/meta.json.   usage: collect_lab_results.py <round-prefix> <log>..."""
import json, os, re, sys
prefix = sys.argv[1]
results = {}
for path in sys.argv[2:]:
    cur = None; tier = "quick"
    for l in open(path):
        m = re.match(r"### (\w+)[ /](\d)(.*)", l)
        if m:
            cur = "%s-%s" % (m.group(1), m.group(2)); tier = "thorough" if "thorough" in m.group(3) else "quick"; continue
        m = re.match(r"(C\d\d) exit=(\d) (\[.*?\]) \[", l)
        if m and cur and m.group(2) != "2":
            sigs = re.findall(r"\('([^']+)', '(\d+)'\)", m.group(3))
            results.setdefault(cur, {}).setdefault(m.group(1), []).append({"tier": tier, "exit": int(m.group(2)), "signatures": [[a[:120], b] for a, b in sigs[:4]]})
for key, res in sorted(results.items()):
    mp = "/verif/seeded/%s-%s/meta.json" % (prefix, key)
    if not os.path.exists(mp):
        print("no meta for", key); continue
    m = json.load(open(mp))
    for c, rs in res.items():
        m["check_results"].setdefault(c, [])
        for r in rs:
            if r not in m["check_results"][c]:
                m["check_results"][c].append(r)
    cr = m["check_results"]
    m["caught_by_quick_checks"] = sorted({c for c, rs in cr.items() for r in rs if r["tier"] == "quick" and r["exit"] == 1})
    m["caught_by_thorough_checks"] = sorted({c for c, rs in cr.items() for r in rs if r["tier"] == "thorough" and r["exit"] == 1})
    m["checks_run_silent"] = sorted({c for c, rs in cr.items() if all(r["exit"] == 0 for r in rs)})
    json.dump(m, open(mp, "w"), indent=1)
    print(key, m["breaks_property"], "quick:", m["caught_by_quick_checks"], "thorough:", m["caught_by_thorough_checks"], "silent:", m["checks_run_silent"])
