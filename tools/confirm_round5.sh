#!/bin/bash
# confirms the round-5 deliveries, one worktree per agent, agents in parallel
# usage: confirm_round5.sh <outdir>
OUT=${1:-/tmp/confirm5}
mkdir -p "$OUT"
export CARGO_NET_OFFLINE=true CARGO_TERM_COLOR=never
T=/verif/tools/confirm_mutant.py

sh_demo() { # <deliver> <worktree>
    local d=$1 wt=$2 r
    (cd $wt && git checkout -q -- . && git clean -fdq -- src tests examples benches build.rs)
    bash $d/demo.sh $wt > $OUT/$(basename $(dirname $d))-$(basename $d).clean.log 2>&1; local c=$?
    (cd $wt && git apply $d/patch.diff) || { echo "{\"deliver\":\"$d\",\"error\":\"patch\"}"; return; }
    (cd $wt && cargo test --workspace --no-fail-fast --offline 2>&1 | grep "test result" | tr '\n' ' ') > $OUT/suite.$$.txt
    local s=$(cat $OUT/suite.$$.txt)
    bash $d/demo.sh $wt > $OUT/$(basename $(dirname $d))-$(basename $d).mutant.log 2>&1; local m=$?
    (cd $wt && git checkout -q -- . && git clean -fdq -- src tests examples benches build.rs)
    echo "{\"deliver\":\"$d\",\"clean_demo_rc\":$c,\"mutant_demo_rc\":$m,\"suite\":\"$s\"}"
}

agent() {
    local a=$1 wt=/tmp/mut-$1
    for k in 1 2 3 4; do
        d=/tmp/deliver-$a/$k
        if [ -f $d/demo.sh ]; then
            sh_demo $d $wt
        else
            case $a-$k in
                P-3) CARGO_PROFILE_DEV_OPT_LEVEL=s python3 $T $d $wt ;;
                R-1) RUSTFLAGS="-C target-feature=+avx2" python3 $T $d $wt ;;
                *) python3 $T $d $wt ;;
            esac
        fi
        (cd $wt && rm -f build.rs)
    done > $OUT/$a.jsonl 2>&1
}
for a in P Q R S U; do agent $a & done
wait
cat $OUT/*.jsonl
