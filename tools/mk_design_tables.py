import json, glob
notes = {
 "r6-V-1": "thorough tier only: strings of 2^32+5 bytes in every role (driver op giant_str, lib/giant.py)",
 "r6-V-2": "thorough tier only: the giant message and strings also run on the build with debug assertions on (C13)",
 "r6-V-3": "needed the surface-driven clone probe: the API does not exist at the pinned commit; the compiled crate's surface (rustdoc JSON) says when it does",
 "r6-V-4": "thorough tier only: an exporter context of 2^32+5 bytes",
 "r6-W-1": "needed the PskBundle constructibility probe (public fields found through rustdoc JSON are emptied by a generated program)",
 "r6-W-2": "needed genuine messages whose tag repeats the previous message's tag (GCM linearity)",
 "r6-W-3": "needed the small-stack placement (scheduler stack:64)",
 "r6-W-4": "needed the recorded public surface (api_surface.json) and the setter probe: a new function taking only integers is called between two identical transcripts",
 "r6-X-1": "same as Y-2", "r6-X-2": "same as W-2",
 "r6-X-3": "thorough tier only: Miri for i686 with --no-default-features (target x feature conjunctions)",
 "r6-X-4": "thorough tier only: giant strings on the debug-assertion build",
 "r6-Y-1": "needed an RNG that itself uses the library on the same thread before every draw",
 "r6-Y-2": "needed the small-stack placement (stack:64) in C13 and C18",
 "r6-Y-3": "same as W-2",
 "r6-Y-4": "needed a driver build with --cfg fuzzing",
 "r7-A7-1": "needed mixed configurations (no-alloc + panic=abort + opt-level s + native CPU in the quick tier; pairwise covering set in the thorough tier)",
 "r7-A7-2": "needed mock AEADs with 24- and 8-byte nonces",
 "r7-A7-3": "needed a round trip made from a destructor while a panic unwinds (std build)",
 "r7-A7-4": "caught without further changes (the driver destructures the error)",
 "r7-B7-1": "caught by the x in [n, p) points added in round 5 (x = p-1 is the first one tried)",
 "r7-B7-2": "needed failing-seal sessions (mock AEAD) in C14",
 "r7-B7-3": "caught by the eq observation of the from_bytes op (now also v == w, clone == v)",
 "r7-B7-4": "thorough tier only: key mill (2^32 - 40 objects constructed, then 80 keys re-parsed)",
 "r7-C7-1": "same as A7-2",
 "r7-C7-2": "needed failing seals placed exactly at 2^64-1",
 "r7-C7-3": "caught by the steered DeriveKeyPair of round 5 (accepted counter 255 is a required bucket)",
 "r7-C7-4": "caught by the steered DeriveKeyPair of round 5 (candidate 1 is one of the accept classes for P-256/P-384)",
}

notes.update({
 "r8-D8-1": "thorough tier only: Miri for powerpc-unknown-linux-gnu (32-bit AND big-endian); needed the hooks' ledger counters to compile without 64-bit atomics",
 "r8-D8-2": "caught by the mock AEADs with 20- and 32-byte tags (allocating seal); C14 gained the same mocks on its seal-forms comparison afterwards",
 "r8-D8-3": "needed mock AEADs that panic inside encrypt/decrypt on request",
 "r8-D8-4": "needed a mock AEAD whose nonce length is not a multiple of 4 (13 bytes)",
 "r8-E8-1": "needed the Deserialize probe (serde's own value deserializers, generated from the surface with all cargo features on)",
 "r8-E8-2": "needed the Zeroize probe (export, wipe, export again)",
 "r8-E8-3": "MISSED: a memo keyed by a 64-bit fingerprint behaves like the unchanged crate except on a collision of that fingerprint; see DESIGN.md section 8",
 "r8-E8-4": "MISSED: same as E8-3 (per-context memo of the last export)",
 "r8-F8-1": "needed mock AEADs that panic inside decrypt: state and next message judged after the caught panic",
 "r8-F8-2": "needed the cfg(fuzzing) build in C10",
 "r8-F8-3": "thorough tier only: reject storm of 2^32+16 refused deliveries on one receiver",
 "r8-F8-4": "needed the cfg(fuzzing) build in C08",
 "r8-G8-1": "needed keyed SHA-2 chaining values as needles (memory image of a hasher of the same crate keyed with the ipad/opad block)",
 "r8-G8-2": "MISSED: fingerprint-keyed memo (SipHash with zero key over suite id and info); see DESIGN.md section 8",
 "r8-G8-3": "first missed (no toolchain older than 1.81 in the image); then caught by the reported-compiler probe: a shim that answers `rustc --version` with 1.65.0 / 1.80.0 and otherwise runs the real compiler",
 "r8-G8-4": "MISSED: fingerprint-keyed memo of pk(skR); see DESIGN.md section 8",
})

notes.update({
 "r9-H9-1": "needed the mock KEM (id 0x7e57, non-zero high byte) compared with the reference in C02",
 "r9-H9-2": "needed every returned error to be rendered with Display/Debug by the driver, and errfmt with payloads in both orders (C13); C12 caught it through the same rendering",
 "r9-H9-3": "needed the `noprobe` build: a compiler shim on which every build-script feature probe fails, so the fallback is what runs",
 "r9-H9-4": "thorough tier only: Miri for s390x (64-bit big-endian) - in the target list since round 3",
 "r9-I9-1": "needed the mock KEM (Nsecret = 96 > 64)",
 "r9-I9-2": "needed the mock KEM (Nsk = 96 > 66) using the trait's default gen_keypair",
 "r9-I9-3": "needed the clamped scalar 5*l - 1 as a private key in C03 / C10",
 "r9-I9-4": "caught by C12 (a parsed key is Debug-formatted by the driver); C13 gained valid keys through its parsers and catches it too",
 "r9-J9-1": "caught by C04 through the 64-byte-key mock AEAD; C13 gained sessions over all mock primitives and catches it too",
 "r9-J9-2": "needed byte-aligned key objects placed at every address modulo 8 (off= argument) with tiny-u keys",
 "r9-J9-3": "same as I9-4 (caught by C12; C13 after the addition)",
 "r9-J9-4": "needed a mock AEAD whose attached in-place forms put the tag in front (C04 first; C14 after its rotation over the mocks was made even)",
})
def table(prefix):
    rows=[]
    for mp in sorted(glob.glob('/verif/seeded/%s-*/meta.json' % prefix)):
        m=json.load(open(mp))
        if m["id"] in notes: m["notes"]=notes[m["id"]]; json.dump(m, open(mp,"w"), indent=1)
        q=m["caught_by_quick_checks"]; t=m["caught_by_thorough_checks"]
        caught = ", ".join(q) if q else (", ".join(t)+" (thorough)" if t else "**not run / missed**")
        rows.append("   | %s (%s) | %s | %s | %s |" % (m["id"], m["breaks_property"], m["needs_to_manifest"], caught, m["notes"] or "—"))
    return "\n".join(rows)
import sys
print(table(sys.argv[1]))
