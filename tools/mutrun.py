#!/usr/bin/env python3
"""Applies a patch to /repo, runs the given checks, restores /repo.  For the mutation campaign only.
usage: tools/mutrun.py <patch.diff> [--tier quick|thorough] [--seed N] C02 C04 ... | all"""
import json
import os
import re
import subprocess
import sys
import time

VERIF = os.path.dirname(os.path.dirname(os.path.abspath(__file__)))


def main():
    args = sys.argv[1:]
    patch = os.path.abspath(args.pop(0))
    tier = "quick"
    seed = "1"
    checks = []
    while args:
        a = args.pop(0)
        if a == "--tier":
            tier = args.pop(0)
        elif a == "--seed":
            seed = args.pop(0)
        elif a == "all":
            checks = ["C%02d" % i for i in range(1, 19)]
        else:
            checks.append(a.upper())
    st = subprocess.run(["git", "-C", "/repo", "status", "--porcelain"], stdout=subprocess.PIPE, text=True).stdout.strip()
    if st:
        print("refusing: /repo is not clean:\n" + st)
        return 2
    r = subprocess.run(["git", "-C", "/repo", "apply", patch], stderr=subprocess.PIPE, text=True)
    if r.returncode != 0:
        print("patch does not apply:", r.stderr)
        return 2
    results = {}
    try:
        for c in checks:
            env = dict(os.environ, VERIF_SEED=seed)
            t0 = time.time()
            p = subprocess.run([os.path.join(VERIF, "check"), c, "--tier", tier], cwd=VERIF, env=env, stdout=subprocess.PIPE, stderr=subprocess.STDOUT, text=True)
            sigs = re.findall(r"signature=(\S+) occurrences=(\d+)", p.stdout)
            inc = re.findall(r"INCONCLUSIVE property=\S+ reason=(.{0,160})", p.stdout)
            results[c] = {"exit": p.returncode, "signatures": sigs[:6], "inconclusive": inc[:2], "s": round(time.time() - t0, 1)}
            print("%s exit=%d %s %s (%.0fs)" % (c, p.returncode, sigs[:4], inc[:1], time.time() - t0), flush=True)
    finally:
        subprocess.run(["git", "-C", "/repo", "checkout", "--", "."])
        subprocess.run(["git", "-C", "/repo", "clean", "-fdq", "--", "src", "tests", "examples", "benches"])
    st = subprocess.run(["git", "-C", "/repo", "status", "--porcelain"], stdout=subprocess.PIPE, text=True).stdout.strip()
    print("repo restored:", "clean" if not st else st)
    print("JSON", json.dumps(results))
    return 0


if __name__ == "__main__":
    sys.exit(main())
