#!/usr/bin/env python3
"""round 3 prompt: several properties, all earlier ideas listed, emphasis on evading runtime checks"""
import json, sys, glob
pids = sys.argv[1].split(",")
wt = sys.argv[2]
n = sys.argv[3] if len(sys.argv) > 3 else "4"
tag = pids[0]
props = [json.loads(l) for l in open('/verif/properties.jsonl')]
props = [p for p in props if p['id'] in pids]
prior = []
for pid in pids:
    for m in sorted(glob.glob('/verif/seeded/%s-*/meta.json' % pid) + glob.glob('/verif/seeded/r2-%s-*/meta.json' % pid)):
        prior.append("  - [%s] %s" % (pid, json.load(open(m))["needs_to_manifest"]))
print(f"""You are helping test a verification setup by producing realistic *property-breaking changes* to a Rust library.

The library is rozbb/rust-hpke (crate `hpke`, an RFC 9180 HPKE implementation). You have your own scratch git worktree of it at {wt} . Work ONLY inside {wt} (never touch /repo, never read or touch /verif). The sandbox has no network; `cargo` works offline (use `--offline`).

Here are semantic properties the library is supposed to satisfy (JSON records):

{json.dumps(props, indent=1)}

Your job: produce {n} different candidate changes ("mutants") to the library source in the worktree - spread over the properties above as you see fit - each of which
  1. BREAKS one of these properties (say which),
  2. still COMPILES, and
  3. still PASSES the existing test suite unchanged: `cd {wt} && cargo test --workspace --no-fail-fast --offline` must report the same passing tests (35 unit tests + 1 doctest) - do not edit or delete existing tests.

This is a LATER round (three rounds have been run). The library is guarded by dynamic checks (think: generated workloads over all ciphersuites and modes with boundary-length inputs, an independent RFC 9180 reference implementation to compare against, adversarial delivery histories, sanitizers, feature-matrix builds, multi-threaded placements). Nearly all earlier mutants were caught (also: release-only code, 32-bit and big-endian targets via Miri, objects reused across calls, concurrent storms, argument aliasing, length sweeps, alternative framings, freed-heap residue are covered by now). Do NOT use `git stash` (it is shared between worktrees); use `git diff > file; git checkout -- .; git apply file`. Your goal is to find changes that such checks are LIKELY TO MISS: think about what a test generator would plausibly never produce - a specific relation between two inputs, a specific value class, a specific long history, a combination of an unusual feature set with an unusual input, behaviour that depends on an earlier call's arguments, state that survives in a context across calls, behaviour that differs only between API forms, only in release builds, only on one KEM/KDF/AEAD, only above some size. The change must still be something a maintainer could plausibly commit (an optimisation, a refactor, a hardening, a copy-paste slip), not an obvious backdoor keyed on a magic constant.

Ideas that were ALREADY used (do not repeat them or close variants):
{chr(10).join(prior)}

The code contains some lines guarded by `#[cfg(hpke_verif)]` (verification hooks); leave those lines alone and do not rely on them.

For EACH mutant deliver, in the directory {wt}/../deliver-{tag}/<k>/ (k = 1, 2, ...; create it):
  - patch.diff : `git diff` of the change against the worktree's HEAD (source changes only, not the demonstration),
  - a demonstration: a small Rust test file (demo.rs to be dropped into {wt}/tests/ as an integration test using only the crate's public API) or an in-crate #[test] given as a separate diff demo.diff, or a shell script demo.sh (exit non-zero when the property is broken) - which FAILS with the change applied and PASSES without it. State exactly how to run it,
  - notes.md : which property it breaks, what exactly is needed for the break to manifest, why you think generated checks would miss it, and the commands you ran with their outcomes.

Verify everything yourself by actually running the commands: (a) clean tree: demonstration passes; (b) mutant applied: existing suite still passes (35 + 1), demonstration fails. After you are done, leave the worktree CLEAN (git checkout -- . ; remove untracked demo files) - the deliverables live in the deliver-{tag} directory only.

Keep build output inside the worktree's own target/ directory. Report back a short summary: for each mutant one line saying which property, what it changes and what it needs to manifest, and whether all verification steps succeeded.""")
