#!/usr/bin/env python3
"""Mutation campaign only: runs checks against a patch in a private lab (a scratch worktree of /repo plus a copy
of /verif's sources, both under /var/tmp), so that /repo itself stays untouched and other runs can go on.
usage: tools/mutlab.py <lab> <patch.diff|none> [--tier quick|thorough] [--seed N] C02 C04 ... | all
       tools/mutlab.py <lab> --remove"""
import json
import os
import re
import subprocess
import sys
import time

VERIF = os.path.dirname(os.path.dirname(os.path.abspath(__file__)))
ROOT = "/var/tmp/mutlab"


def sh(cmd, **kw):
    return subprocess.run(cmd, stdout=subprocess.PIPE, stderr=subprocess.STDOUT, text=True, **kw)


def main():
    args = sys.argv[1:]
    lab = os.path.join(ROOT, args.pop(0))
    repo, verif = os.path.join(lab, "repo"), os.path.join(lab, "verif")
    if args and args[0] == "--remove":
        sh(["git", "-C", "/repo", "worktree", "remove", "--force", repo])
        sh(["rm", "-rf", lab])
        sh(["git", "-C", "/repo", "worktree", "prune"])
        return 0
    patch = args.pop(0)
    tier, seed, checks = "quick", "1", []
    while args:
        a = args.pop(0)
        if a == "--tier":
            tier = args.pop(0)
        elif a == "--seed":
            seed = args.pop(0)
        elif a == "all":
            checks = ["C%02d" % i for i in range(1, 19)]
        else:
            checks.append(a.upper())
    os.makedirs(lab, exist_ok=True)
    if not os.path.isdir(repo):
        r = sh(["git", "-C", "/repo", "worktree", "add", "--detach", repo, "HEAD"])
        if r.returncode != 0:
            print(r.stdout)
            return 2
    head = sh(["git", "-C", "/repo", "rev-parse", "HEAD"]).stdout.strip()
    sh(["git", "-C", repo, "checkout", "--", "."])
    sh(["git", "-C", repo, "clean", "-fdq", "--", "src", "tests", "examples", "benches", "build.rs"])
    sh(["git", "-C", repo, "checkout", "-q", "--detach", head])
    if not os.path.exists(os.path.join(repo, "Cargo.lock")):
        sh(["cp", "/repo/Cargo.lock", os.path.join(repo, "Cargo.lock")])
    first = not os.path.isdir(verif)
    ex = ["--exclude", ".git", "--exclude", "work", "--exclude", "replays", "--exclude", "seeded", "--exclude", "__pycache__",
          "--exclude", "harness/Cargo.toml", "--exclude", "harness/Cargo.lock", "--exclude", "probes/*/Cargo.toml", "--exclude", "probes/*/Cargo.lock"]
    if not first:
        ex += ["--exclude", "target"]
    sh(["rsync", "-a", "--delete"] + ex + [VERIF + "/", verif + "/"])
    sh(["git", "-C", repo, "checkout", "--", "."])
    sh(["git", "-C", repo, "clean", "-fdq", "--", "src", "tests", "examples", "benches", "build.rs"])
    if patch != "none":
        r = sh(["git", "-C", repo, "apply", os.path.abspath(patch)])
        if r.returncode != 0:
            print("patch does not apply:", r.stdout)
            return 2
    results = {}
    try:
        for c in checks:
            env = dict(os.environ, VERIF_SEED=seed, VERIF_REPO=repo)
            t0 = time.time()
            p = sh([os.path.join(verif, "check"), c, "--tier", tier], cwd=verif, env=env)
            sigs = re.findall(r"signature=(\S+) occurrences=(\d+)", p.stdout)
            inc = re.findall(r"INCONCLUSIVE property=\S+ reason=(.{0,160})", p.stdout)
            results[c] = {"exit": p.returncode, "signatures": sigs[:6], "inconclusive": inc[:2], "s": round(time.time() - t0, 1)}
            print("%s exit=%d %s %s (%.0fs)" % (c, p.returncode, sigs[:4], inc[:1], time.time() - t0), flush=True)
            if p.returncode not in (0, 1):
                print(p.stdout[-1500:])
    finally:
        sh(["git", "-C", repo, "checkout", "--", "."])
        sh(["git", "-C", repo, "clean", "-fdq", "--", "src", "tests", "examples", "benches", "build.rs"])
    print("JSON", json.dumps(results))
    return 0


if __name__ == "__main__":
    sys.exit(main())
