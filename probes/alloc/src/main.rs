//! Presence probe: names every allocating public API generically. Must compile exactly when the
//! `alloc` or `std` feature of hpke is enabled.
#![allow(dead_code)]
use hpke::aead::{Aead, AeadCtxR, AeadCtxS};
use hpke::kdf::Kdf;
use hpke::kem::Kem;
use hpke::rand_core::{CryptoRng, RngCore};
use hpke::HpkeError;

fn names<A: Aead, K: Kdf, M: Kem, R: RngCore + CryptoRng>() {
    let _a = hpke::single_shot_seal::<A, K, M, R>;
    let _b = hpke::single_shot_open::<A, K, M>;
    let _c: fn(&mut AeadCtxS<A, K, M>, &[u8], &[u8]) -> Result<Vec<u8>, HpkeError> = AeadCtxS::<A, K, M>::seal;
    let _d: fn(&mut AeadCtxR<A, K, M>, &[u8], &[u8]) -> Result<Vec<u8>, HpkeError> = AeadCtxR::<A, K, M>::open;
}

fn main() {
    println!("alloc-probe-ok");
}
