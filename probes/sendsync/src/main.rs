//! Compile-time probe for property C18: the public types of every suite can be moved to and
//! shared between threads. Concrete types only, so the bounds are really discharged.
#![allow(dead_code)]
use hpke::aead::{AeadCtxR, AeadCtxS, AeadTag, AesGcm128, AesGcm256, ChaCha20Poly1305, ExportOnlyAead};
use hpke::kdf::{HkdfSha256, HkdfSha384, HkdfSha512};
use hpke::kem::Kem;
use hpke::{HpkeError, OpModeR, OpModeS, PskBundle};

fn ss<T: Send + Sync>() {}

macro_rules! suite {
    ($a:ty, $k:ty, $m:ty) => {
        ss::<AeadCtxS<$a, $k, $m>>();
        ss::<AeadCtxR<$a, $k, $m>>();
    };
}

macro_rules! kem {
    ($m:ty) => {
        ss::<<$m as Kem>::PublicKey>();
        ss::<<$m as Kem>::PrivateKey>();
        ss::<<$m as Kem>::EncappedKey>();
        ss::<OpModeS<'static, $m>>();
        ss::<OpModeR<'static, $m>>();
        suite!(AesGcm128, HkdfSha256, $m);
        suite!(AesGcm128, HkdfSha384, $m);
        suite!(AesGcm128, HkdfSha512, $m);
        suite!(AesGcm256, HkdfSha256, $m);
        suite!(AesGcm256, HkdfSha384, $m);
        suite!(AesGcm256, HkdfSha512, $m);
        suite!(ChaCha20Poly1305, HkdfSha256, $m);
        suite!(ChaCha20Poly1305, HkdfSha384, $m);
        suite!(ChaCha20Poly1305, HkdfSha512, $m);
        suite!(ExportOnlyAead, HkdfSha256, $m);
        suite!(ExportOnlyAead, HkdfSha384, $m);
        suite!(ExportOnlyAead, HkdfSha512, $m);
    };
}

fn main() {
    ss::<HpkeError>();
    ss::<PskBundle<'static>>();
    ss::<AeadTag<AesGcm128>>();
    ss::<AeadTag<AesGcm256>>();
    ss::<AeadTag<ChaCha20Poly1305>>();
    ss::<AeadTag<ExportOnlyAead>>();
    #[cfg(feature = "x25519")]
    {
        kem!(hpke::kem::X25519HkdfSha256);
    }
    #[cfg(feature = "p256")]
    {
        kem!(hpke::kem::DhP256HkdfSha256);
    }
    #[cfg(feature = "p384")]
    {
        kem!(hpke::kem::DhP384HkdfSha384);
    }
    #[cfg(feature = "p521")]
    {
        kem!(hpke::kem::DhP521HkdfSha512);
    }
    println!("sendsync-probe-ok");
}
