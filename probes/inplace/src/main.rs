//! Presence probe: names every in-place / non-allocating public API generically. Must compile
//! for every feature subset (no concrete KEM is needed to name a generic item).
#![allow(dead_code, clippy::type_complexity)]
use hpke::aead::{Aead, AeadCtxR, AeadCtxS, AeadTag};
use hpke::kdf::Kdf;
use hpke::kem::Kem;
use hpke::rand_core::{CryptoRng, RngCore};
use hpke::{Deserializable, HpkeError, OpModeR, OpModeS, PskBundle, Serializable};

fn names<A: Aead, K: Kdf, M: Kem, R: RngCore + CryptoRng>() {
    let _a: fn(&OpModeS<M>, &M::PublicKey, &[u8], &mut R) -> Result<(M::EncappedKey, AeadCtxS<A, K, M>), HpkeError> =
        hpke::setup_sender::<A, K, M, R>;
    let _b: fn(&OpModeR<M>, &M::PrivateKey, &M::EncappedKey, &[u8]) -> Result<AeadCtxR<A, K, M>, HpkeError> =
        hpke::setup_receiver::<A, K, M>;
    let _c = hpke::single_shot_seal_in_place_detached::<A, K, M, R>;
    let _d = hpke::single_shot_open_in_place_detached::<A, K, M>;
    let _e: fn(&mut AeadCtxS<A, K, M>, &mut [u8], &[u8]) -> Result<AeadTag<A>, HpkeError> =
        AeadCtxS::<A, K, M>::seal_in_place_detached;
    let _f: fn(&mut AeadCtxR<A, K, M>, &mut [u8], &[u8], &AeadTag<A>) -> Result<(), HpkeError> =
        AeadCtxR::<A, K, M>::open_in_place_detached;
    let _g: fn(&AeadCtxS<A, K, M>, &[u8], &mut [u8]) -> Result<(), HpkeError> = AeadCtxS::<A, K, M>::export;
    let _h: fn(&AeadCtxR<A, K, M>, &[u8], &mut [u8]) -> Result<(), HpkeError> = AeadCtxR::<A, K, M>::export;
    let _i = <AeadTag<A> as Deserializable>::from_bytes;
    let _j = <AeadTag<A> as Serializable>::size;
    let _k = M::derive_keypair;
    let _l = M::gen_keypair::<R>;
    let _m = M::sk_to_pk;
    let _n = PskBundle::new;
}

fn main() {
    // something observable so that "built and ran" is an execution, not only a build
    let e = HpkeError::IncorrectInputLength(1, 2);
    println!("inplace-probe-ok {:?} aeads={:04x},{:04x},{:04x},{:04x} kdfs={},{},{}", e,
        <hpke::aead::AesGcm128 as Aead>::AEAD_ID, <hpke::aead::AesGcm256 as Aead>::AEAD_ID,
        <hpke::aead::ChaCha20Poly1305 as Aead>::AEAD_ID, <hpke::aead::ExportOnlyAead as Aead>::AEAD_ID,
        <hpke::kdf::HkdfSha256 as Kdf>::KDF_ID, <hpke::kdf::HkdfSha384 as Kdf>::KDF_ID, <hpke::kdf::HkdfSha512 as Kdf>::KDF_ID);
}
