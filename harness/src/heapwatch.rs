//! Freed-memory residue monitor: a global allocator wrapper that, while armed, searches every
//! block handed to `dealloc` for registered byte strings. It observes what a secret's owner left
//! behind in heap memory at the moment the memory is returned - without adding a read that the
//! optimizer has to keep the wipe alive for (stores into memory that is about to be freed may
//! legitimately be removed if they are plain stores).

use std::alloc::{GlobalAlloc, Layout, System};
use std::sync::atomic::{AtomicBool, AtomicUsize, Ordering};

pub const MAX_NEEDLES: usize = 16;
pub const MAX_LEN: usize = 160;

static ARMED: AtomicBool = AtomicBool::new(false);
static mut NEEDLES: [[u8; MAX_LEN]; MAX_NEEDLES] = [[0u8; MAX_LEN]; MAX_NEEDLES];
static NEEDLE_LEN: [AtomicUsize; MAX_NEEDLES] = [const { AtomicUsize::new(0) }; MAX_NEEDLES];
static HITS: [AtomicUsize; MAX_NEEDLES] = [const { AtomicUsize::new(0) }; MAX_NEEDLES];
static BLOCKS: AtomicUsize = AtomicUsize::new(0);

pub struct Watch;

unsafe impl GlobalAlloc for Watch {
    unsafe fn alloc(&self, layout: Layout) -> *mut u8 {
        System.alloc(layout)
    }
    unsafe fn dealloc(&self, ptr: *mut u8, layout: Layout) {
        if ARMED.load(Ordering::Relaxed) && layout.size() >= 8 {
            BLOCKS.fetch_add(1, Ordering::Relaxed);
            let n = layout.size();
            for k in 0..MAX_NEEDLES {
                let len = NEEDLE_LEN[k].load(Ordering::Relaxed);
                if len == 0 || len > n {
                    continue;
                }
                let base = (std::ptr::addr_of!(NEEDLES) as *const u8).add(k * MAX_LEN);
                let needle = std::slice::from_raw_parts(base, len);
                let mut i = 0usize;
                while i + len <= n {
                    let mut eq = true;
                    for j in 0..len {
                        if std::ptr::read_volatile(ptr.add(i + j)) != needle[j] {
                            eq = false;
                            break;
                        }
                    }
                    if eq {
                        HITS[k].fetch_add(1, Ordering::Relaxed);
                    }
                    i += 1;
                }
            }
        }
        System.dealloc(ptr, layout)
    }
    unsafe fn realloc(&self, ptr: *mut u8, layout: Layout, new_size: usize) -> *mut u8 {
        System.realloc(ptr, layout, new_size)
    }
    unsafe fn alloc_zeroed(&self, layout: Layout) -> *mut u8 {
        System.alloc_zeroed(layout)
    }
}

/// Registers the needles, runs `f` with the monitor armed, returns (hits per needle, blocks seen).
/// Single-threaded use only (the driver calls it from the sequential scheduler).
pub fn watch<F: FnOnce()>(needles: &[Vec<u8>], f: F) -> (Vec<u64>, u64) {
    let k = needles.len().min(MAX_NEEDLES);
    for i in 0..MAX_NEEDLES {
        NEEDLE_LEN[i].store(0, Ordering::SeqCst);
        HITS[i].store(0, Ordering::SeqCst);
    }
    BLOCKS.store(0, Ordering::SeqCst);
    for (i, nd) in needles.iter().take(k).enumerate() {
        let l = nd.len().min(MAX_LEN);
        unsafe {
            let base = (std::ptr::addr_of_mut!(NEEDLES) as *mut u8).add(i * MAX_LEN);
            std::ptr::copy_nonoverlapping(nd.as_ptr(), base, l);
        }
        NEEDLE_LEN[i].store(l, Ordering::SeqCst);
    }
    ARMED.store(true, Ordering::SeqCst);
    f();
    ARMED.store(false, Ordering::SeqCst);
    ((0..k).map(|i| HITS[i].load(Ordering::SeqCst) as u64).collect(), BLOCKS.load(Ordering::SeqCst) as u64)
}
