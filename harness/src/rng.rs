//! A scripted RNG: hands out the bytes given in the case, logs every draw.

use hpke::rand_core::{CryptoRng, RngCore};

pub struct ScriptRng {
    data: Vec<u8>,
    pos: usize,
    /// (method, bytes)
    pub draws: Vec<(&'static str, usize)>,
    /// bytes requested beyond the script
    pub over: usize,
    /// (kem, kdf, aead): before handing out bytes, the RNG itself uses the library on the same thread (a full
    /// key generation + round trip of that suite), the way an RNG layered on HPKE key generation would
    pub reenter: Option<(u16, u16, u16)>,
    /// outcomes of those nested uses
    pub nested: Vec<String>,
}

impl ScriptRng {
    pub fn new(data: Vec<u8>) -> Self {
        ScriptRng { data, pos: 0, draws: Vec::new(), over: 0, reenter: None, nested: Vec::new() }
    }
    fn take(&mut self, out: &mut [u8]) {
        if let Some((kem, kdf, aead)) = self.reenter {
            let r = crate::ops::nested_use(kem, kdf, aead, self.nested.len() as u8);
            self.nested.push(r);
        }
        for b in out.iter_mut() {
            if self.pos < self.data.len() {
                *b = self.data[self.pos];
                self.pos += 1;
            } else {
                *b = 0xEE;
                self.over += 1;
            }
        }
    }
    pub fn log(&self) -> String {
        if self.draws.is_empty() {
            return "-".into();
        }
        self.draws
            .iter()
            .map(|(m, n)| format!("{}:{}", m, n))
            .collect::<Vec<_>>()
            .join(",")
    }
    pub fn left(&self) -> usize {
        self.data.len() - self.pos
    }
}

impl RngCore for ScriptRng {
    fn next_u32(&mut self) -> u32 {
        let mut b = [0u8; 4];
        self.take(&mut b);
        self.draws.push(("u32", 4));
        u32::from_le_bytes(b)
    }
    fn next_u64(&mut self) -> u64 {
        let mut b = [0u8; 8];
        self.take(&mut b);
        self.draws.push(("u64", 8));
        u64::from_le_bytes(b)
    }
    fn fill_bytes(&mut self, dst: &mut [u8]) {
        self.take(dst);
        self.draws.push(("fill", dst.len()));
    }
}

impl CryptoRng for ScriptRng {}
