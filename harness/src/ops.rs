//! The interpreter: one `Session` executes the calls of one session of a case file against the
//! real crate and renders what it observed as event lines.

use crate::lang::{self, crc32_update, decode_bytes, out, Call, Regs};
use crate::rng::ScriptRng;
use crate::suite::{self, err_name, CtxR, CtxS, Fail, KemOps, ModeArgs, SuiteOps};
use std::cell::RefCell;
use std::collections::HashMap;
use std::panic::{catch_unwind, AssertUnwindSafe};

thread_local! {
    pub static LAST_PANIC: RefCell<Option<String>> = const { RefCell::new(None) };
}

/// setup_sender / seal / setup_receiver / open of one small message (allocating forms where compiled in)
pub fn roundtrip(skr: &[u8], pkr: &[u8], rng: &[u8], kem: u16, kdf: u16, aead: u16) -> String {
    let Some(su) = suite::suite_ops(kem, kdf, aead) else { return "nosuite".into() };
    let mut r = ScriptRng::new(rng.to_vec());
    let m = ModeArgs::default();
    let Ok((enc, mut cs)) = su.setup_s(&m, pkr, b"", &mut r) else { return "setup_s_failed".into() };
    let Ok(mut cr) = su.setup_r(&m, skr, &enc, b"") else { return "setup_r_failed".into() };
    if aead == 0xFFFF {
        let (mut a, mut b) = ([0u8; 16], [1u8; 16]);
        return match (cs.export(b"n", &mut a), cr.export(b"n", &mut b)) {
            (Ok(()), Ok(())) if a == b => "ok".into(),
            _ => "export_differs".into(),
        };
    }
    match cs.seal_alloc(b"teardown", b"") {
        Some(Ok(full)) => match cr.open_alloc(&full, b"") {
            Some(Ok(pt)) if pt == b"teardown" => "ok".into(),
            Some(Ok(_)) => "wrong_plaintext".into(),
            Some(Err(e)) => format!("open_err:{}", err_name(&e)),
            None => "noalloc".into(),
        },
        Some(Err(_)) => "seal_failed".into(),
        None => {
            let mut buf = *b"teardown";
            let Ok(tag) = cs.seal_inplace(&mut buf, b"") else { return "seal_failed".into() };
            match cr.open_inplace(&mut buf, b"", &tag) {
                Ok(()) if &buf == b"teardown" => "ok".into(),
                Ok(()) => "wrong_plaintext".into(),
                Err(e) => format!("open_err:{}", err_name(&e.0)),
            }
        }
    }
}

/// What a caller-supplied RNG may legitimately do while the library waits for its bytes: use the library.
pub fn nested_use(kem: u16, kdf: u16, aead: u16, n: u8) -> String {
    let r = std::panic::catch_unwind(|| {
        let Some(k) = suite::kem_ops(kem) else { return "nokem".to_string() };
        let mut inner = ScriptRng::new(vec![0x40 | n; 80]);
        let (skr, pkr) = k.gen_keypair(&mut inner);
        roundtrip(&skr, &pkr, &[0x80 | n; 80], kem, kdf, aead)
    });
    r.unwrap_or_else(|_| "nested_panic".into())
}

pub fn install_panic_hook() {
    std::panic::set_hook(Box::new(|info| {
        let msg = if let Some(s) = info.payload().downcast_ref::<&str>() {
            s.to_string()
        } else if let Some(s) = info.payload().downcast_ref::<String>() {
            s.clone()
        } else {
            "<non-string panic payload>".to_string()
        };
        let loc = info
            .location()
            .map(|l| format!("{}:{}", l.file(), l.line()))
            .unwrap_or_else(|| "?".into());
        LAST_PANIC.with(|p| *p.borrow_mut() = Some(format!("{} @{}", msg, loc)));
    }));
}

const BYTE_ARGS: &[&str] = &[
    "ikm", "rng", "sk", "pk", "bytes", "psk", "pskid", "pkr", "sks", "pks", "skr", "enc", "info",
    "pt", "aad", "ct", "tag", "exctx", "key", "bn", "es", "pks2", "pks3", "pks4", "table",
];

/// Transformed copies of a secret that an implementation might keep around instead of (or besides)
/// the secret itself: byte-reversed, XORed with the HMAC pads, 64-bit halves byte-reversed.
fn derived_needles(tag: &str, v: &[u8]) -> Vec<(String, Vec<u8>)> {
    let mut out = Vec::new();
    if v.len() < 8 {
        return out;
    }
    let rev: Vec<u8> = v.iter().rev().cloned().collect();
    out.push((format!("{}_rev", tag), rev));
    out.push((format!("{}_x36", tag), v.iter().map(|b| b ^ 0x36).collect()));
    out.push((format!("{}_x5c", tag), v.iter().map(|b| b ^ 0x5c).collect()));
    out.push((format!("{}_tail8rev", tag), v[v.len() - 8..].iter().rev().cloned().collect()));
    out.push((format!("{}_head8rev", tag), v[..8].iter().rev().cloned().collect()));
    if tag == "es" {
        out.extend(hash_state_needles(tag, v));
    }
    out
}

/// A "pre-keyed HMAC" kept for speed does not hold the key in any byte-wise transformed form: it holds the SHA-2
/// chaining values after the ipad / opad block. Whoever has them can compute every HMAC under that key. The memory
/// image of a hasher of the same crate that has absorbed exactly that block contains the same words; windows of that
/// image that differ from a fresh hasher almost everywhere are used as needles.
fn hash_state_needles(tag: &str, key: &[u8]) -> Vec<(String, Vec<u8>)> {
    use sha2::Digest;
    fn image<T>(t: &T) -> Vec<u8> {
        let n = std::mem::size_of_val(t);
        let p = t as *const T as *const u8;
        (0..n).map(|i| unsafe { std::ptr::read_volatile(p.add(i)) }).collect()
    }
    fn windows(name: String, fresh: &[u8], keyed: &[u8], w: usize) -> Vec<(String, Vec<u8>)> {
        let mut out = Vec::new();
        let mut off = 0;
        while off + w <= keyed.len() && out.len() < 3 {
            let diff = (0..w).filter(|i| keyed[off + i] != fresh[off + i]).count();
            if diff * 8 >= w * 7 {
                out.push((format!("{}{}", name, out.len()), keyed[off..off + w].to_vec()));
                off += w;
            } else {
                off += 4;
            }
        }
        out
    }
    let mut out = Vec::new();
    for (pad, pn) in [(0x36u8, "i"), (0x5cu8, "o")] {
        macro_rules! one {
            ($h:ty, $block:expr, $w:expr, $nm:expr) => {{
                if key.len() <= $block {
                    let mut b = vec![pad; $block];
                    for (i, k) in key.iter().enumerate() {
                        b[i] ^= k;
                    }
                    let fresh = <$h>::new();
                    let mut keyed = <$h>::new();
                    keyed.update(&b);
                    out.extend(windows(format!("{}_hs{}{}", tag, $nm, pn), &image(&fresh), &image(&keyed), $w));
                }
            }};
        }
        one!(sha2::Sha256, 64, 32, "256");
        one!(sha2::Sha384, 128, 64, "384");
        one!(sha2::Sha512, 128, 64, "512");
    }
    out
}

struct Fields(Vec<String>);
impl Fields {
    fn new() -> Self {
        Fields(Vec::new())
    }
    fn kv(&mut self, k: &str, v: impl std::fmt::Display) -> &mut Self {
        self.0.push(format!("{}={}", k, v));
        self
    }
    fn ok(&mut self) -> &mut Self {
        self.kv("ok", 1)
    }
    fn fail(&mut self, f: &Fail) -> &mut Self {
        if f.1.is_empty() {
            self.kv("err", err_name(&f.0))
        } else {
            self.kv("err", format!("{}@{}", err_name(&f.0), f.1))
        }
    }
    fn skip(&mut self, why: &str) -> &mut Self {
        self.kv("skip", why)
    }
}

struct Args<'a> {
    call: &'a Call,
    bytes: HashMap<&'a str, Vec<u8>>,
}
impl<'a> Args<'a> {
    fn b(&self, k: &str) -> &[u8] {
        self.bytes.get(k).map(|v| v.as_slice()).unwrap_or(&[])
    }
    fn has_bytes(&self, k: &str) -> bool {
        self.bytes.contains_key(k)
    }
    fn opt_b(&self, k: &str) -> Option<&[u8]> {
        self.bytes.get(k).map(|v| v.as_slice())
    }
    fn s(&self, k: &str) -> &str {
        self.call.get(k).unwrap_or("")
    }
    fn u(&self, k: &str) -> u64 {
        self.call.get(k).and_then(|v| v.parse().ok()).unwrap_or(0)
    }
    fn mode(&self) -> ModeArgs {
        ModeArgs {
            mode: self.u("mode") as u8,
            psk: self.b("psk").to_vec(),
            pskid: self.b("pskid").to_vec(),
            sks: self.b("sks").to_vec(),
            pks: self.b("pks").to_vec(),
        }
    }
}

pub struct Session {
    pub sid: String,
    pub ids: (u16, u16, u16),
    suite: Option<Box<dyn SuiteOps>>,
    kem: Option<Box<dyn KemOps>>,
    regs: Regs,
    cs: HashMap<String, Box<dyn CtxS>>,
    cr: HashMap<String, Box<dyn CtxR>>,
    scratch: Vec<u8>,
    /// heap blocks of contexts that residue_scan has dropped in this session (the peer of a context holds the same secrets)
    dropped_blocks: Vec<(usize, usize)>,
}

fn state_s(f: &mut Fields, c: &dyn CtxS) {
    if let Some((s, o)) = c.seq_state() {
        f.kv("seq", s).kv("ovf", o as u8);
    }
}
fn state_r(f: &mut Fields, c: &dyn CtxR) {
    if let Some((s, o)) = c.seq_state() {
        f.kv("seq", s).kv("ovf", o as u8);
    }
}

fn setreg(regs: &mut Regs, name: &str, field: &str, v: &[u8]) {
    if !name.is_empty() {
        regs.insert(format!("{}.{}", name, field), v.to_vec());
    }
}

fn ledger_str() -> String {
    #[cfg(hpke_verif)]
    {
        hpke::verif::ledger_snapshot()
            .iter()
            .map(|(d, n, b)| format!("{}:{}:{}", d, n, b))
            .collect::<Vec<_>>()
            .join(",")
    }
    #[cfg(not(hpke_verif))]
    {
        "nohooks".to_string()
    }
}

impl Session {
    pub fn new(sid: &str, kem: u16, kdf: u16, aead: u16) -> Session {
        Session {
            sid: sid.to_string(),
            ids: (kem, kdf, aead),
            suite: suite::suite_ops(kem, kdf, aead),
            kem: suite::kem_ops(kem),
            regs: Regs::new(),
            cs: HashMap::new(),
            cr: HashMap::new(),
            scratch: Vec::new(),
            dropped_blocks: Vec::new(),
        }
    }

    /// The suite a setup call should use: the session's, unless the call overrides KDF and/or AEAD
    /// (same KEM, so key bytes stay meaningful). Used to present one sender's bytes to a receiver
    /// of another suite.
    fn suite_for(&self, a: &Args) -> Option<Box<dyn SuiteOps>> {
        let hexarg = |k: &str| a.call.get(k).and_then(|v| u16::from_str_radix(v, 16).ok());
        match (hexarg("kdf"), hexarg("aead")) {
            (None, None) => None,
            (kdf, aead) => suite::suite_ops(self.ids.0, kdf.unwrap_or(self.ids.1), aead.unwrap_or(self.ids.2)),
        }
    }

    pub fn available(&self) -> bool {
        self.suite.is_some() && self.kem.is_some()
    }


    /// Executes one call. Returns (extra `L` lines, the `R` line)
    pub fn exec(&mut self, call: &Call) -> (Vec<String>, String) {
        // Resolve byte arguments first; a resolution failure is a harness/case error, reported as such
        let mut bytes = HashMap::new();
        let mut crc = 0u32;
        for (k, v) in &call.args {
            if BYTE_ARGS.contains(&k.as_str()) {
                match decode_bytes(v, &self.regs) {
                    Ok(b) => {
                        crc = crc32_update(crc, k.as_bytes());
                        crc = crc32_update(crc, &(b.len() as u64).to_le_bytes());
                        crc = crc32_update(crc, &b);
                        bytes.insert(k.as_str(), b);
                    }
                    Err(e) => {
                        return (vec![], format!("R {} caseerr={}", call.id, e.replace(' ', "_")));
                    }
                }
            }
        }
        crate::suite::KEY_OFFSET.with(|c| c.set(call.get("off").and_then(|v| v.parse().ok()).unwrap_or(0)));
        let args = Args { call, bytes };
        let mut extra = Vec::new();
        LAST_PANIC.with(|p| *p.borrow_mut() = None);
        self.scratch.clear();
        let res = catch_unwind(AssertUnwindSafe(|| self.exec_inner(&args, &mut extra)));
        let mut f = match res {
            Ok(f) => f,
            Err(_) => {
                let msg = LAST_PANIC
                    .with(|p| p.borrow_mut().take())
                    .unwrap_or_else(|| "<unknown>".into());
                let mut f = Fields::new();
                f.kv("panic", msg.replace(' ', "_").replace(['\n', '\r', '\t'], "|"));
                // in-place operations keep the caller's buffer in `scratch`
                if args.s("api") == "inplace" {
                    f.kv("buf", out(&self.scratch));
                }
                f
            }
        };
        f.kv("afp", format!("{:08x}", crc));
        (extra, format!("R {} {}", call.id, f.0.join(" ")))
    }

    fn exec_inner(&mut self, a: &Args, extra: &mut Vec<String>) -> Fields {
        let mut f = Fields::new();
        suite::DROP_WHILE_UNWINDING.with(|c| c.set(a.u("unwind") == 1));
        let op = a.call.op.as_str();
        let outname = a.s("out").to_string();
        if self.suite.is_none() || self.kem.is_none() {
            f.skip("suite_not_compiled");
            return f;
        }
        match op {
            "sizes" => {
                let (npk, nsk, nenc, nsec) = self.kem.as_ref().unwrap().sizes();
                let nt = self.suite.as_ref().unwrap().nt();
                f.ok().kv("npk", npk).kv("nsk", nsk).kv("nenc", nenc).kv("nsecret", nsec).kv("nt", nt);
            }
            "derive_keypair" => {
                let (sk, pk, pk2) = self.kem.as_ref().unwrap().derive_keypair(a.b("ikm"));
                f.ok().kv("sk", out(&sk)).kv("pk", out(&pk)).kv("pk2", out(&pk2));
                setreg(&mut self.regs, &outname, "sk", &sk);
                setreg(&mut self.regs, &outname, "pk", &pk);
            }
            "derive_toy" => {
                // DeriveKeyPair with the steerable hash of toy.rs (hook verif_derive_keypair_with)
                let id = self.kem.as_ref().unwrap().kem_id();
                match crate::toy::derive(id, a.b("ikm"), a.b("table")) {
                    Some((sk, pk, pk2)) => {
                        f.ok().kv("sk", out(&sk)).kv("pk", out(&pk)).kv("pk2", out(&pk2));
                    }
                    None => {
                        f.skip("hook or KEM not compiled in");
                    }
                }
            }
            "gen_keypair" => {
                let mut rng = ScriptRng::new(a.b("rng").to_vec());
                if a.u("reenter") == 1 {
                    rng.reenter = Some(self.ids);
                }
                let (sk, pk) = self.kem.as_ref().unwrap().gen_keypair(&mut rng);
                f.ok().kv("sk", out(&sk)).kv("pk", out(&pk)).kv("rngd", rng.log()).kv("nested", if rng.nested.is_empty() { "-".to_string() } else { rng.nested.join(",") }).kv("over", rng.over);
                setreg(&mut self.regs, &outname, "sk", &sk);
                setreg(&mut self.regs, &outname, "pk", &pk);
            }
            "sk_to_pk" => match self.kem.as_ref().unwrap().sk_to_pk(a.b("sk")) {
                Ok(pk) => {
                    f.ok().kv("pk", out(&pk));
                    setreg(&mut self.regs, &outname, "pk", &pk);
                }
                Err(e) => {
                    f.fail(&e);
                }
            },
            "from_bytes" => {
                let kind = a.s("kind");
                let r = if kind == "tag" {
                    self.suite.as_ref().unwrap().tag_from_bytes(a.b("bytes"))
                } else {
                    self.kem.as_ref().unwrap().from_bytes(kind, a.b("bytes"))
                };
                match r {
                    Ok((re, eq)) => {
                        f.ok().kv("re", out(&re)).kv("eq", eq as u8);
                    }
                    Err(e) => {
                        f.fail(&e);
                    }
                }
            }
            "write_exact" => {
                let kind = a.s("kind");
                let n = a.u("buflen") as usize;
                let r = if kind == "tag" {
                    self.suite.as_ref().unwrap().tag_write_exact(a.b("bytes"), n)
                } else {
                    self.kem.as_ref().unwrap().write_exact(kind, a.b("bytes"), n)
                };
                match r {
                    Ok(buf) => {
                        f.ok().kv("buf", out(&buf));
                    }
                    Err(e) => {
                        f.fail(&e);
                    }
                }
            }
            "psk_bundle" => match hpke::PskBundle::new(a.b("psk"), a.b("pskid")) {
                Ok(_) => {
                    f.ok();
                }
                Err(e) => {
                    f.fail(&(e, ""));
                }
            },
            "encap" => {
                let mut rng = ScriptRng::new(a.b("rng").to_vec());
                if a.u("reenter") == 1 {
                    rng.reenter = Some(self.ids);
                }
                let id = match (a.opt_b("sks"), a.opt_b("pks")) {
                    (Some(s), Some(p)) => Some((s, p)),
                    _ => None,
                };
                let r = self.kem.as_ref().unwrap().encap(a.b("pkr"), id, &mut rng, a.u("scan") == 1);
                match r {
                    Ok((ss, enc, scan)) => {
                        f.ok().kv("ss", out(&ss)).kv("enc", out(&enc));
                        if let Some(s) = scan {
                            f.kv("pre", out(&s.pre)).kv("post", out(&s.post));
                        }
                        setreg(&mut self.regs, &outname, "ss", &ss);
                        setreg(&mut self.regs, &outname, "enc", &enc);
                    }
                    Err(e) => {
                        f.fail(&e);
                    }
                }
                f.kv("rngd", rng.log()).kv("nested", if rng.nested.is_empty() { "-".to_string() } else { rng.nested.join(",") }).kv("over", rng.over);
            }
            "decap" => {
                let r = self.kem.as_ref().unwrap().decap(
                    a.b("skr"),
                    a.opt_b("pks"),
                    a.b("enc"),
                    a.u("scan") == 1,
                );
                match r {
                    Ok((ss, scan)) => {
                        f.ok().kv("ss", out(&ss));
                        if let Some(s) = scan {
                            f.kv("pre", out(&s.pre)).kv("post", out(&s.post));
                        }
                        setreg(&mut self.regs, &outname, "ss", &ss);
                    }
                    Err(e) => {
                        f.fail(&e);
                    }
                }
            }
            "setup_s" => {
                let mut rng = ScriptRng::new(a.b("rng").to_vec());
                if a.u("reenter") == 1 {
                    rng.reenter = Some(self.ids);
                }
                let ov = self.suite_for(a);
                let su = ov.as_ref().unwrap_or_else(|| self.suite.as_ref().unwrap());
                let r = su.setup_s(&a.mode(), a.b("pkr"), a.b("info"), &mut rng);
                match r {
                    Ok((enc, ctx)) => {
                        f.ok().kv("enc", out(&enc));
                        if a.u("quiet") == 1 {
                            // residue workloads: the driver must not hold the context's secrets in clear anywhere
                        } else if let Some((bn, es)) = ctx.secrets() {
                            f.kv("bn", out(&bn)).kv("es", out(&es));
                            setreg(&mut self.regs, &outname, "bn", &bn);
                            setreg(&mut self.regs, &outname, "es", &es);
                        }
                        setreg(&mut self.regs, &outname, "enc", &enc);
                        self.cs.insert(outname.clone(), ctx);
                    }
                    Err(e) => {
                        f.fail(&e);
                    }
                }
                f.kv("rngd", rng.log()).kv("nested", if rng.nested.is_empty() { "-".to_string() } else { rng.nested.join(",") }).kv("over", rng.over);
            }
            "setup_r" => {
                let ov = self.suite_for(a);
                let su = ov.as_ref().unwrap_or_else(|| self.suite.as_ref().unwrap());
                let r = su.setup_r(&a.mode(), a.b("skr"), a.b("enc"), a.b("info"));
                match r {
                    Ok(ctx) => {
                        f.ok();
                        if a.u("quiet") == 1 {
                            // residue workloads: no clear copy of the secrets in the driver
                        } else if let Some((bn, es)) = ctx.secrets() {
                            f.kv("bn", out(&bn)).kv("es", out(&es));
                            setreg(&mut self.regs, &outname, "bn", &bn);
                            setreg(&mut self.regs, &outname, "es", &es);
                        }
                        self.cr.insert(outname.clone(), ctx);
                    }
                    Err(e) => {
                        f.fail(&e);
                    }
                }
            }
            "raw_s" => match self.suite.as_ref().unwrap().raw_s(a.b("key"), a.b("bn"), a.b("es")) {
                Some(ctx) => {
                    f.ok();
                    self.cs.insert(outname.clone(), ctx);
                }
                None => {
                    f.skip("nohooks_or_badlen");
                }
            },
            "raw_r" => match self.suite.as_ref().unwrap().raw_r(a.b("key"), a.b("bn"), a.b("es")) {
                Some(ctx) => {
                    f.ok();
                    self.cr.insert(outname.clone(), ctx);
                }
                None => {
                    f.skip("nohooks_or_badlen");
                }
            },
            "seal" => {
                let Some(ctx) = self.cs.get_mut(a.s("ctx")) else {
                    f.skip("noctx");
                    return f;
                };
                let nt = self.suite.as_ref().unwrap().nt();
                if a.s("api") == "inplace" {
                    self.scratch = a.b("pt").to_vec();
                    match ctx.seal_inplace(&mut self.scratch, a.b("aad")) {
                        Ok(tag) => {
                            f.ok().kv("ct", out(&self.scratch)).kv("tag", out(&tag));
                            state_s(&mut f, ctx.as_ref());
                            let (ct, mut full) = (self.scratch.clone(), self.scratch.clone());
                            full.extend_from_slice(&tag);
                            setreg(&mut self.regs, &outname, "ct", &ct);
                            setreg(&mut self.regs, &outname, "tag", &tag);
                            setreg(&mut self.regs, &outname, "full", &full);
                        }
                        Err(e) => {
                            f.fail(&(e, "")).kv("buf", out(&self.scratch));
                            state_s(&mut f, ctx.as_ref());
                        }
                    }
                } else {
                    match ctx.seal_alloc(a.b("pt"), a.b("aad")) {
                        None => {
                            f.skip("noalloc");
                        }
                        Some(Ok(full)) => {
                            f.ok().kv("full", out(&full));
                            state_s(&mut f, ctx.as_ref());
                            let k = full.len().saturating_sub(nt);
                            let (ct, tag) = (full[..k].to_vec(), full[k..].to_vec());
                            setreg(&mut self.regs, &outname, "ct", &ct);
                            setreg(&mut self.regs, &outname, "tag", &tag);
                            setreg(&mut self.regs, &outname, "full", &full);
                        }
                        Some(Err(e)) => {
                            f.fail(&(e, ""));
                            state_s(&mut f, ctx.as_ref());
                        }
                    }
                }
            }
            "open" => {
                let Some(ctx) = self.cr.get_mut(a.s("ctx")) else {
                    f.skip("noctx");
                    return f;
                };
                if a.s("api") == "inplace" {
                    self.scratch = a.b("ct").to_vec();
                    match ctx.open_inplace(&mut self.scratch, a.b("aad"), a.b("tag")) {
                        Ok(()) => {
                            f.ok().kv("pt", out(&self.scratch));
                            let pt = self.scratch.clone();
                            setreg(&mut self.regs, &outname, "pt", &pt);
                        }
                        Err(e) => {
                            f.fail(&e).kv("buf", out(&self.scratch));
                        }
                    }
                    state_r(&mut f, ctx.as_ref());
                } else {
                    match ctx.open_alloc(a.b("ct"), a.b("aad")) {
                        None => {
                            f.skip("noalloc");
                        }
                        Some(Ok(pt)) => {
                            f.ok().kv("pt", out(&pt));
                            state_r(&mut f, ctx.as_ref());
                            setreg(&mut self.regs, &outname, "pt", &pt);
                        }
                        Some(Err(e)) => {
                            f.fail(&(e, ""));
                            state_r(&mut f, ctx.as_ref());
                        }
                    }
                }
            }
            "export" => {
                let n = a.u("len") as usize;
                let mut buf = vec![0x5Au8; n];
                let name = a.s("ctx");
                let r = if let Some(c) = self.cs.get(name) {
                    c.export(a.b("exctx"), &mut buf)
                } else if let Some(c) = self.cr.get(name) {
                    c.export(a.b("exctx"), &mut buf)
                } else {
                    f.skip("noctx");
                    return f;
                };
                match r {
                    Ok(()) => {
                        f.ok().kv("out", out(&buf));
                        setreg(&mut self.regs, &outname, "out", &buf);
                    }
                    Err(e) => {
                        f.fail(&(e, ""));
                    }
                }
            }
            "export_par" => {
                // M threads export concurrently through a shared reference to one context.  With vary=1
                // every thread uses its own exporter context (base || thread index); the expected value of
                // each is computed sequentially first, and every concurrent result is compared with it.
                let n = a.u("len") as usize;
                let m = (a.u("threads") as usize).clamp(1, 64);
                let reps = (a.u("reps") as usize).clamp(1, 1_000_000);
                let vary = a.u("vary") == 1;
                let name = a.s("ctx");
                let base = a.b("exctx").to_vec();
                let ctx_of = |t: usize| -> Vec<u8> {
                    let mut v = base.clone();
                    if vary {
                        v.push(t as u8);
                    }
                    v
                };
                let run = |c: &(dyn suite::CtxCommon)| -> (Vec<String>, u64) {
                    let expected: Vec<Result<Vec<u8>, hpke::HpkeError>> = (0..m)
                        .map(|t| {
                            let mut buf = vec![0x5Au8; n];
                            c.export(&ctx_of(t), &mut buf).map(|_| buf)
                        })
                        .collect();
                    let barrier = std::sync::Barrier::new(m);
                    let mism: u64 = std::thread::scope(|s| {
                        let hs: Vec<_> = (0..m)
                            .map(|t| {
                                let (expected, barrier, ctx_of) = (&expected, &barrier, &ctx_of);
                                s.spawn(move || {
                                    let ex = ctx_of(t);
                                    let mut bad = 0u64;
                                    barrier.wait();
                                    for _ in 0..reps {
                                        let mut buf = vec![0x5Au8; n];
                                        let r = c.export(&ex, &mut buf).map(|_| buf);
                                        if r != expected[t] {
                                            bad += 1;
                                        }
                                    }
                                    bad
                                })
                            })
                            .collect();
                        hs.into_iter().map(|h| h.join().expect("export thread panicked")).sum()
                    });
                    // and once more sequentially afterwards: a corrupted memo would persist
                    let mut after_bad = 0u64;
                    for (t, exp) in expected.iter().enumerate() {
                        let mut buf = vec![0x5Au8; n];
                        let r = c.export(&ctx_of(t), &mut buf).map(|_| buf);
                        if &r != exp {
                            after_bad += 1;
                        }
                    }
                    let vals = expected
                        .iter()
                        .map(|r| match r {
                            Ok(b) => out(b),
                            Err(e) => format!("err:{}", err_name(e)),
                        })
                        .collect();
                    (vals, mism + after_bad)
                };
                let (vals, mism) = if let Some(c) = self.cs.get(name) {
                    run(c.as_ref() as &dyn suite::CtxCommon)
                } else if let Some(c) = self.cr.get(name) {
                    run(c.as_ref() as &dyn suite::CtxCommon)
                } else {
                    f.skip("noctx");
                    return f;
                };
                let mut distinct = vals.clone();
                distinct.sort();
                distinct.dedup();
                // distinct counts the *expected* values: 1 without vary, m with vary (for len >= 16)
                f.ok()
                    .kv("first", vals[0].clone())
                    .kv("distinct", distinct.len())
                    .kv("mism", mism)
                    .kv("threads", m)
                    .kv("calls", (m * reps) as u64);
            }
            "setup_r_par" | "setup_s_par" => {
                let threads = (a.u("threads") as usize).clamp(2, 64);
                let su = self.suite.as_ref().unwrap();
                let r = if op == "setup_r_par" {
                    su.setup_r_par(&a.mode(), a.b("skr"), a.b("enc"), a.b("info"), threads)
                } else {
                    su.setup_s_par(&a.mode(), a.b("pkr"), a.b("info"), a.b("rng"), threads)
                };
                match r {
                    Ok(rs) => {
                        let mut vals: Vec<String> = rs
                            .iter()
                            .map(|r| match r {
                                Ok(b) => out(b),
                                Err(e) => format!("err:{}", err_name(e)),
                            })
                            .collect();
                        let seq_after = vals.pop().unwrap();
                        let mut distinct = vals.clone();
                        distinct.push(seq_after.clone());
                        distinct.sort();
                        distinct.dedup();
                        f.ok().kv("value", seq_after).kv("distinct", distinct.len()).kv("threads", threads);
                    }
                    Err(e) => {
                        f.fail(&e);
                    }
                }
            }
            "setup_r_reuse" => {
                let mut list: Vec<&[u8]> = Vec::new();
                for k in ["pks", "pks2", "pks3", "pks4"] {
                    if let Some(b) = a.opt_b(k) {
                        list.push(b);
                    }
                }
                let mut m = a.mode();
                m.pks = Vec::new();
                let r = self.suite.as_ref().unwrap().setup_r_reuse(&m, a.b("skr"), a.b("enc"), a.b("info"), &list);
                match r {
                    Ok(rs) => {
                        f.ok();
                        for (i, r) in rs.iter().enumerate() {
                            match r {
                                Ok(b) => f.kv(&format!("v{}", i), out(b)),
                                Err(e) => f.kv(&format!("v{}", i), format!("err:{}", err_name(e))),
                            };
                        }
                    }
                    Err(e) => {
                        f.fail(&e);
                    }
                }
            }
            "giant" => {
                // one very large message through the in-place seal and either opening API, no copies kept
                let n = a.u("len") as usize;
                let aad = a.b("aad").to_vec();
                let (Some(cs), Some(cr)) = (self.cs.get_mut(a.s("cs")), self.cr.get_mut(a.s("cr"))) else {
                    f.skip("noctx");
                    return f;
                };
                let mut buf: Vec<u8> = Vec::with_capacity(n + 64);
                buf.resize(n, 0);
                let mut i = 0usize;
                while i < n {
                    buf[i] = (i as u64).wrapping_mul(0x9E3779B97F4A7C15u64).to_le_bytes()[7];
                    i += 4093;
                }
                let d0 = <sha2::Sha256 as sha2::Digest>::digest(&buf);
                match cs.seal_inplace(&mut buf, &aad) {
                    Err(e) => {
                        f.kv("seal", err_name(&e));
                    }
                    Ok(tag) => {
                        f.kv("seal", "ok");
                        let changed = <sha2::Sha256 as sha2::Digest>::digest(&buf) != d0;
                        f.kv("encrypted", changed as u8);
                        if a.s("api") == "alloc" {
                            buf.extend_from_slice(&tag);
                            match cr.open_alloc(&buf, &aad) {
                                None => {
                                    f.kv("open", "noalloc");
                                }
                                Some(Err(e)) => {
                                    f.kv("open", err_name(&e));
                                }
                                Some(Ok(pt)) => {
                                    let same = <sha2::Sha256 as sha2::Digest>::digest(&pt) == d0 && pt.len() == n;
                                    f.kv("open", "ok").kv("same", same as u8);
                                }
                            }
                        } else {
                            match cr.open_inplace(&mut buf, &aad, &tag) {
                                Err(e) => {
                                    f.kv("open", err_name(&e.0));
                                }
                                Ok(()) => {
                                    let same = <sha2::Sha256 as sha2::Digest>::digest(&buf) == d0;
                                    f.kv("open", "ok").kv("same", same as u8);
                                }
                            }
                        }
                    }
                }
                f.ok();
            }
            "giant_str" => {
                // one very long string (>= 2^32 bytes) in the role of info / psk / psk_id / exporter context / ikm, and the
                // same string with one byte changed at `flip`.  Only short results are kept.
                let n = a.u("len") as usize;
                let flip = a.u("flip") as usize;
                let which = a.s("which").to_string();
                let mut big: Vec<u8> = vec![0u8; n];
                let mut i = 0usize;
                while i < n {
                    big[i] = (i as u64).wrapping_mul(0x9E3779B97F4A7C15u64).to_le_bytes()[7];
                    i += 4093;
                }
                let su = self.suite.as_ref().unwrap();
                let km = self.kem.as_ref().unwrap();
                if which == "ikm" {
                    let (sk, pk, _) = km.derive_keypair(&big);
                    big[flip] ^= 1;
                    let (sk2, _, _) = km.derive_keypair(&big);
                    f.ok().kv("sk", out(&sk)).kv("pk", out(&pk)).kv("p_sk", out(&sk2));
                } else {
                    let small_psk = a.b("psk").to_vec();
                    let small_id = a.b("pskid").to_vec();
                    let margs = |big: &[u8]| -> (ModeArgs, Vec<u8>) {
                        let mut m = ModeArgs::default();
                        let mut info = b"giant".to_vec();
                        match which.as_str() {
                            "info" => info = big.to_vec(),
                            "psk" => {
                                m.mode = 1;
                                m.psk = big.to_vec();
                                m.pskid = small_id.clone();
                            }
                            "pskid" => {
                                m.mode = 1;
                                m.psk = small_psk.clone();
                                m.pskid = big.to_vec();
                            }
                            _ => {}
                        }
                        (m, info)
                    };
                    let exp = |r: Result<(), hpke::HpkeError>, o: &[u8]| match r {
                        Ok(()) => out(o),
                        Err(e) => format!("err:{}", err_name(&e)),
                    };
                    let mut rng = ScriptRng::new(a.b("rng").to_vec());
                    let (m, info) = margs(&big);
                    match su.setup_s(&m, a.b("pkr"), &info, &mut rng) {
                        Err(e) => {
                            f.fail(&e);
                        }
                        Ok((enc, cs)) => {
                            f.ok().kv("enc", out(&enc));
                            let short_ctx = b"giant-exporter-context".to_vec();
                            let ectx: &[u8] = if which == "exctx" { &big } else { &short_ctx };
                            let mut o = [0x5Au8; 32];
                            let r = cs.export(ectx, &mut o);
                            f.kv("s_exp", exp(r, &o));
                            if let Some((_, es)) = cs.secrets() {
                                f.kv("es", out(&es));
                            }
                            match su.setup_r(&m, a.b("skr"), &enc, &info) {
                                Err(e) => {
                                    f.kv("r_exp", format!("setup_err:{}", err_name(&e.0)));
                                }
                                Ok(cr) => {
                                    let mut o = [0x5Au8; 32];
                                    let r = cr.export(ectx, &mut o);
                                    f.kv("r_exp", exp(r, &o));
                                }
                            }
                            drop(m);
                            drop(info);
                            big[flip] ^= 1;
                            let (m2, info2) = margs(&big);
                            match su.setup_r(&m2, a.b("skr"), &enc, &info2) {
                                Err(e) => {
                                    f.kv("p_exp", format!("setup_err:{}", err_name(&e.0)));
                                }
                                Ok(cr) => {
                                    let ectx: &[u8] = if which == "exctx" { &big } else { &short_ctx };
                                    let mut o = [0x5Au8; 32];
                                    let r = cr.export(ectx, &mut o);
                                    f.kv("p_exp", exp(r, &o));
                                }
                            }
                        }
                    }
                }
            }
            "tls_teardown" => {
                // A worker thread whose OWN thread-local was initialised first (so it is destroyed last) calls the
                // library once in its body and once more from that thread-local's destructor, i.e. while the thread
                // is being torn down and after any thread-local the library may have created has been destroyed.
                struct AtExit(Vec<u8>, Vec<u8>, Vec<u8>, u16, u16, u16, std::sync::mpsc::Sender<String>);
                impl Drop for AtExit {
                    fn drop(&mut self) {
                        let r = std::panic::catch_unwind(std::panic::AssertUnwindSafe(|| roundtrip(&self.0, &self.1, &self.2, self.3, self.4, self.5)));
                        let _ = self.6.send(match r {
                            Ok(v) => v,
                            Err(_) => "panic".to_string(),
                        });
                    }
                }
                thread_local! {
                    static EXIT: std::cell::RefCell<Option<AtExit>> = const { std::cell::RefCell::new(None) };
                }
                let (tx, rx) = std::sync::mpsc::channel::<String>();
                let (skr, pkr, rng) = (a.b("skr").to_vec(), a.b("pkr").to_vec(), a.b("rng").to_vec());
                let ids = self.ids;
                let h = std::thread::spawn(move || {
                    // our thread-local first ...
                    EXIT.with(|e| *e.borrow_mut() = Some(AtExit(skr.clone(), pkr.clone(), rng.clone(), ids.0, ids.1, ids.2, tx)));
                    // ... then the library is used in the thread body (this is when it would create its own)
                    roundtrip(&skr, &pkr, &rng, ids.0, ids.1, ids.2)
                });
                let body = h.join().unwrap_or_else(|_| "thread_panicked".into());
                let dtor = rx.recv_timeout(std::time::Duration::from_secs(60)).unwrap_or_else(|_| "no_report".into());
                // ... and from a destructor that runs while a panic unwinds the current thread
                struct OnUnwind<'a>(&'a mut String, &'a [u8], &'a [u8], &'a [u8], (u16, u16, u16));
                impl Drop for OnUnwind<'_> {
                    fn drop(&mut self) {
                        *self.0 = roundtrip(self.1, self.2, self.3, self.4 .0, self.4 .1, self.4 .2);
                    }
                }
                let mut unw = String::from("not_run");
                let (skr, pkr, rng) = (a.b("skr").to_vec(), a.b("pkr").to_vec(), a.b("rng").to_vec());
                let _ = std::panic::catch_unwind(std::panic::AssertUnwindSafe(|| {
                    let _g = OnUnwind(&mut unw, &skr, &pkr, &rng, ids);
                    panic!("deliberate panic of the driver: the destructor of a local uses the library while unwinding");
                }));
                f.ok().kv("body", body).kv("in_destructor", dtor).kv("in_unwind", unw);
            }
            "probe_ctl" => {
                crate::probe::FAIL_SEAL.with(|c| c.set(a.u("fail_seal") as u32));
                crate::probe::PANIC_OPEN.with(|c| c.set(a.u("panic_open") as u32));
                crate::probe::PANIC_SEAL.with(|c| c.set(a.u("panic_seal") as u32));
                f.ok().kv("seals_seen", crate::probe::SEALS.with(|c| c.get()));
            }
            "residue_scan" => {
                // Is a copy of the context's base nonce / exporter secret left ANYWHERE in the process (outside thread
                // stacks) once the context has been dropped?  See residue.rs.
                let name = a.s("ctx");
                let (cs, cr) = (self.cs.remove(name), self.cr.remove(name));
                let sec = match (&cs, &cr) {
                    (Some(c), _) => c.secrets(),
                    (_, Some(c)) => c.secrets(),
                    _ => {
                        f.skip("noctx");
                        return f;
                    }
                };
                let Some((mut bn, mut es)) = sec else {
                    f.skip("nohooks");
                    return f;
                };
                crate::residue::mask_in_place(&mut bn);
                crate::residue::mask_in_place(&mut es);
                let masked = vec![bn, es];
                let names = ["bn", "es"];
                let before = crate::residue::scan(&masked);
                // the context's own heap block: what is left INSIDE it after the drop (dead bytes that moves carried along)
                // is judged by the object scans and the allocator monitor, which know which sightings are live; this scan
                // is about copies parked anywhere else
                let (own_p, own_n) = match (&cs, &cr) {
                    (Some(c), _) => (&**c as *const dyn CtxS as *const u8 as usize, std::mem::size_of_val(&**c)),
                    (_, Some(c)) => (&**c as *const dyn CtxR as *const u8 as usize, std::mem::size_of_val(&**c)),
                    _ => (0, 0),
                };
                if let Some(c) = cs {
                    c.heap_drop();
                }
                if let Some(c) = cr {
                    c.heap_drop();
                }
                let mut after = crate::residue::scan(&masked);
                let mut own = 0usize;
                self.dropped_blocks.push((own_p, own_n));
                let blocks = self.dropped_blocks.clone();
                for h in after.iter_mut() {
                    let n0 = h.len();
                    h.retain(|(_, a)| !blocks.iter().any(|(p, n)| *a >= *p && *a < *p + *n));
                    own += n0 - h.len();
                }
                f.kv("own_block", own);
                f.ok()
                    .kv("before", crate::residue::summary(&names, &before))
                    .kv("after", crate::residue::summary(&names, &after))
                    .kv("regions", crate::residue::regions().len());
            }
            "residue_scan_kem" => {
                let mut rng = ScriptRng::new(a.b("rng").to_vec());
                match self.kem.as_ref().unwrap().residue_kem(a.b("pkr"), &mut rng) {
                    Ok((before, after)) => {
                        f.ok().kv("before", before).kv("after", after);
                    }
                    Err(e) => {
                        f.fail(&e);
                    }
                }
            }
            "budget" => {
                // Hidden process-wide budgets: many contexts alive at once, many exports from one context, many failed
                // setups in a row. The same setup (same scripted RNG bytes) must give the same export before, during and
                // after.
                let su = self.suite.as_ref().unwrap();
                let n = a.u("n") as usize;
                let kind = a.s("kind").to_string();
                let (pkr, skr, rngb) = (a.b("pkr").to_vec(), a.b("skr").to_vec(), a.b("rng").to_vec());
                let m = ModeArgs::default();
                let fresh = |su: &dyn SuiteOps| -> String {
                    let mut r = ScriptRng::new(rngb.clone());
                    match su.setup_s(&m, &pkr, b"budget", &mut r) {
                        Ok((enc, cs)) => {
                            let mut o = [0u8; 32];
                            match cs.export(b"b", &mut o) {
                                Ok(()) => format!("{}:{}", out(&enc), out(&o)),
                                Err(e) => format!("export_err:{}", err_name(&e)),
                            }
                        }
                        Err(e) => format!("setup_err:{}", err_name(&e.0)),
                    }
                };
                let before = fresh(su.as_ref());
                let mut bad = 0u64;
                let mut first_bad = String::new();
                let mut note = |what: String, bad: &mut u64| {
                    *bad += 1;
                    if first_bad.is_empty() {
                        first_bad = what;
                    }
                };
                match kind.as_str() {
                    "live" => {
                        let mut held: Vec<Box<dyn CtxS>> = Vec::with_capacity(n);
                        for i in 0..n {
                            let mut r = ScriptRng::new(rngb.clone());
                            match su.setup_s(&m, &pkr, b"budget", &mut r) {
                                Ok((_, cs)) => held.push(cs),
                                Err(e) => {
                                    note(format!("setup_{}_failed_{}", i, err_name(&e.0)), &mut bad);
                                    break;
                                }
                            }
                        }
                        let during = fresh(su.as_ref());
                        if during != before {
                            note(format!("with_{}_alive:{}", held.len(), during), &mut bad);
                        }
                        for i in [0usize, held.len() / 2, held.len().saturating_sub(1)] {
                            if let Some(c) = held.get(i) {
                                let mut o = [0u8; 32];
                                let r = c.export(b"b", &mut o);
                                if r.is_err() || !before.ends_with(&out(&o)) {
                                    note(format!("held_{}_differs", i), &mut bad);
                                }
                            }
                        }
                        drop(held);
                    }
                    "exports" => {
                        let mut r = ScriptRng::new(rngb.clone());
                        if let Ok((_, cs)) = su.setup_s(&m, &pkr, b"budget", &mut r) {
                            for i in 0..n {
                                let mut o = [0u8; 32];
                                let r = cs.export(b"b", &mut o);
                                if r.is_err() || !before.ends_with(&out(&o)) {
                                    note(format!("export_{}_differs", i), &mut bad);
                                    break;
                                }
                            }
                        }
                    }
                    _ => {
                        // failed receiver setups: an encapsulated key the KEM must refuse (all zero for X25519, 04||0.. for NIST)
                        let bad_enc = a.b("badenc").to_vec();
                        for i in 0..n {
                            if su.setup_r(&m, &skr, &bad_enc, b"budget").is_ok() {
                                note(format!("bad_enc_accepted_at_{}", i), &mut bad);
                                break;
                            }
                        }
                        // a genuine receiver must still work
                        let mut r = ScriptRng::new(rngb.clone());
                        if let Ok((enc, cs)) = su.setup_s(&m, &pkr, b"budget", &mut r) {
                            match su.setup_r(&m, &skr, &enc, b"budget") {
                                Ok(cr) => {
                                    let (mut x, mut y) = ([0u8; 32], [1u8; 32]);
                                    let _ = (cs.export(b"b", &mut x), cr.export(b"b", &mut y));
                                    if x != y {
                                        note("receiver_after_failures_differs".into(), &mut bad);
                                    }
                                }
                                Err(e) => note(format!("receiver_after_failures:{}", err_name(&e.0)), &mut bad),
                            }
                        }
                    }
                }
                let after = fresh(su.as_ref());
                if after != before {
                    note(format!("afterwards:{}", after), &mut bad);
                }
                f.ok().kv("mism", bad).kv("first", if first_bad.is_empty() { "-".to_string() } else { first_bad.replace(' ', "_") }).kv("n", n);
            }
            "open_many" => {
                // the same (short, hence cheaply refused) delivery presented n times to one receiver
                let n = a.u("n");
                let Some(cr) = self.cr.get_mut(a.s("ctx")) else {
                    f.skip("noctx");
                    return f;
                };
                let (ct, aad) = (a.b("ct").to_vec(), a.b("aad").to_vec());
                let (mut open_err, mut limit, mut other, mut okc) = (0u64, 0u64, 0u64, 0u64);
                for _ in 0..n {
                    match cr.open_alloc(std::hint::black_box(&ct), &aad) {
                        None => {
                            f.skip("noalloc");
                            return f;
                        }
                        Some(Ok(_)) => okc += 1,
                        Some(Err(hpke::HpkeError::OpenError)) => open_err += 1,
                        Some(Err(hpke::HpkeError::MessageLimitReached)) => limit += 1,
                        Some(Err(_)) => other += 1,
                    }
                }
                f.ok().kv("open_error", open_err).kv("limit", limit).kv("other", other).kv("accepted", okc);
                state_r(&mut f, cr.as_ref());
            }
            "key_mill" => {
                let (made, bad) = self.kem.as_ref().unwrap().key_mill(a.b("ikm"), a.u("n"), (a.u("window") as usize).clamp(2, 200));
                f.ok().kv("made", made).kv("mism", bad);
            }
            "decap_storm" => {
                let threads = (a.u("threads") as usize).clamp(2, 64);
                let reps = (a.u("reps") as usize).clamp(1, 10_000_000);
                let (bad, calls) = self.kem.as_ref().unwrap().decap_storm(a.b("ikm"), threads, reps, a.u("auth") == 1);
                f.ok().kv("mism", bad).kv("calls", calls).kv("threads", threads);
            }
            "errfmt" => {
                let v = self.kem.as_ref().unwrap().error_strings();
                f.ok();
                for (i, sx) in v.iter().enumerate() {
                    f.kv(&format!("e{}", i), lang::hex(sx.as_bytes()));
                }
            }
            "liveness" => {
                // Which sightings of a secret (or of a transformed copy) inside the live context are actually READ by
                // the library?  Each sighting is inverted in place, the context's observable behaviour (an export and,
                // for senders, one seal at the current position) is compared with the baseline, and the bytes are
                // restored.  A region whose inversion changes nothing is dead storage (padding, an inactive union
                // variant, residue a move carried along); one that changes the behaviour is a live copy.
                let name = a.s("ctx");
                let nt = self.suite.as_ref().unwrap().nt();
                let is_s = self.cs.contains_key(name);
                if !is_s && !self.cr.contains_key(name) {
                    f.skip("noctx");
                    return f;
                }
                let secrets = if is_s { self.cs.get(name).unwrap().secrets() } else { self.cr.get(name).unwrap().secrets() };
                // without hooks the case has to say what to look for
                let (bn, es) = match secrets {
                    Some(x) => x,
                    None if a.has_bytes("es") => (a.b("bn").to_vec(), a.b("es").to_vec()),
                    None => {
                        f.skip("nohooks");
                        return f;
                    }
                };
                let mut named: Vec<(String, Vec<u8>)> = vec![("bn".into(), bn.clone()), ("es".into(), es.clone())];
                named.extend(derived_needles("bn", &bn));
                named.extend(derived_needles("es", &es));
                let needles: Vec<&[u8]> = named.iter().map(|(_, v)| v.as_slice()).collect();
                let (size, offs) = if is_s { self.cs.get(name).unwrap().peek(&needles) } else { self.cr.get(name).unwrap().peek(&needles) };
                // behaviour probe
                let behaviour = |sess: &mut Session| -> Vec<u8> {
                    let mut o = vec![0u8; 48];
                    if is_s {
                        let c = sess.cs.get_mut(name).unwrap();
                        let _ = c.export(b"liveness-probe", &mut o[..32]);
                        if nt != 0 {
                            if let Some((seq, ovf)) = c.seq_state() {
                                if !ovf {
                                    let mut buf = [0u8; 16];
                                    if let Ok(tag) = c.seal_inplace(&mut buf, b"") {
                                        o.extend_from_slice(&buf);
                                        o.extend_from_slice(&tag);
                                    }
                                    c.set_seq(seq);
                                }
                            }
                        }
                    } else {
                        let c = sess.cr.get_mut(name).unwrap();
                        let _ = c.export(b"liveness-probe", &mut o[..32]);
                    }
                    o
                };
                let base = behaviour(self);
                let mut items = Vec::new();
                for (k, (nm, v)) in named.iter().enumerate() {
                    for &o in &offs[k] {
                        if is_s {
                            self.cs.get_mut(name).unwrap().poke(o, v.len());
                        } else {
                            self.cr.get_mut(name).unwrap().poke(o, v.len());
                        }
                        let now = behaviour(self);
                        if is_s {
                            self.cs.get_mut(name).unwrap().poke(o, v.len());
                        } else {
                            self.cr.get_mut(name).unwrap().poke(o, v.len());
                        }
                        items.push(format!("{}@{}:{}", nm, o, (now != base) as u8));
                    }
                }
                let after = behaviour(self);
                f.ok()
                    .kv("size", size)
                    .kv("restored", (after == base) as u8)
                    .kv("probes", if items.is_empty() { "-".to_string() } else { items.join(";") });
            }
            "peek" => {
                let name = a.s("ctx");
                let (secrets, which): (Option<(Vec<u8>, Vec<u8>)>, u8) = if let Some(c) = self.cs.get(name) {
                    (c.secrets(), 0)
                } else if let Some(c) = self.cr.get(name) {
                    (c.secrets(), 1)
                } else {
                    f.skip("noctx");
                    return f;
                };
                let (bn, es) = match secrets {
                    Some(x) => x,
                    None if a.has_bytes("es") => (a.b("bn").to_vec(), a.b("es").to_vec()),
                    None => {
                        f.skip("nohooks");
                        return f;
                    }
                };
                let mut named: Vec<(String, Vec<u8>)> = vec![("bn".into(), bn.clone()), ("es".into(), es.clone())];
                named.extend(derived_needles("bn", &bn));
                named.extend(derived_needles("es", &es));
                let needles: Vec<&[u8]> = named.iter().map(|(_, v)| v.as_slice()).collect();
                let (size, offs) = if which == 0 {
                    self.cs.get(name).unwrap().peek(&needles)
                } else {
                    self.cr.get(name).unwrap().peek(&needles)
                };
                let mut der = Vec::new();
                for (k, (name, _)) in named.iter().enumerate().skip(2) {
                    for o in &offs[k] {
                        der.push(format!("{}@{}", name, o));
                    }
                }
                let show = |v: &Vec<usize>| {
                    if v.is_empty() {
                        "-".to_string()
                    } else {
                        v.iter().map(|x| x.to_string()).collect::<Vec<_>>().join(",")
                    }
                };
                f.ok()
                    .kv("size", size)
                    .kv("bn_at", show(&offs[0]))
                    .kv("es_at", show(&offs[1]))
                    .kv("derived", if der.is_empty() { "-".to_string() } else { der.join(";") });
            }
            "set_seq" => {
                let seq: u64 = a.s("seq").parse().unwrap_or(0);
                let name = a.s("ctx");
                let done = if let Some(c) = self.cs.get_mut(name) {
                    c.set_seq(seq)
                } else if let Some(c) = self.cr.get_mut(name) {
                    c.set_seq(seq)
                } else {
                    f.skip("noctx");
                    return f;
                };
                if done {
                    f.ok();
                } else {
                    f.skip("nohooks");
                }
            }
            "state" | "secrets" => {
                let name = a.s("ctx");
                let (st, se) = if let Some(c) = self.cs.get(name) {
                    (c.seq_state(), c.secrets())
                } else if let Some(c) = self.cr.get(name) {
                    (c.seq_state(), c.secrets())
                } else {
                    f.skip("noctx");
                    return f;
                };
                match (st, se) {
                    (Some((s, o)), Some((bn, es))) => {
                        f.ok().kv("seq", s).kv("ovf", o as u8).kv("bn", out(&bn)).kv("es", out(&es));
                    }
                    _ => {
                        f.skip("nohooks");
                    }
                }
            }
            "seal_burst" => {
                let Some(ctx) = self.cs.get_mut(a.s("ctx")) else {
                    f.skip("noctx");
                    return f;
                };
                let n = a.u("n");
                let pt = a.b("pt");
                let aad = a.b("aad");
                let spec = a.s("log");
                let keep = a.call.get("keep") != Some("0");
                let mut head = 0u64;
                let mut tail = 0u64;
                let mut stride = 0u64;
                let mut pow8 = 0u64;
                for part in spec.split(',') {
                    if let Some((k, v)) = part.split_once(':') {
                        let v: u64 = v.parse().unwrap_or(0);
                        match k {
                            "head" => head = v,
                            "tail" => tail = v,
                            "stride" => stride = v,
                            "pow8" => pow8 = v,
                            _ => {}
                        }
                    }
                }
                let want = |i: u64| -> bool {
                    if i < head || i + tail >= n {
                        return true;
                    }
                    if stride != 0 && i % stride == 0 {
                        return true;
                    }
                    if pow8 != 0 {
                        for k in 1..8u32 {
                            let m = 1u64 << (8 * k);
                            let r = i % m;
                            if r < pow8 || m - r <= pow8 {
                                return true;
                            }
                        }
                    }
                    false
                };
                let mut all: Vec<Vec<u8>> = Vec::with_capacity(n as usize);
                let mut okc = 0u64;
                let mut errc = 0u64;
                let mut firsterr = String::new();
                let mut hasher = <sha2::Sha256 as sha2::Digest>::new();
                for i in 0..n {
                    // alternate the two API forms so both are under the same monitor
                    let res: Result<Vec<u8>, hpke::HpkeError> = if i % 2 == 0 {
                        let mut buf = pt.to_vec();
                        ctx.seal_inplace(&mut buf, aad).map(|t| {
                            buf.extend_from_slice(&t);
                            buf
                        })
                    } else {
                        match ctx.seal_alloc(pt, aad) {
                            Some(r) => r,
                            None => {
                                let mut buf = pt.to_vec();
                                ctx.seal_inplace(&mut buf, aad).map(|t| {
                                    buf.extend_from_slice(&t);
                                    buf
                                })
                            }
                        }
                    };
                    match res {
                        Ok(full) => {
                            okc += 1;
                            sha2::Digest::update(&mut hasher, &full);
                            if want(i) {
                                extra.push(format!("L {} i={} full={}", a.call.id, i, out(&full)));
                            }
                            if keep {
                                all.push(full);
                            }
                        }
                        Err(e) => {
                            errc += 1;
                            if firsterr.is_empty() {
                                firsterr = format!("{}@{}", err_name(&e), i);
                            }
                        }
                    }
                }
                // identical (key, pt, aad): equal output <=> equal nonce
                let mut idx: Vec<u32> = (0..all.len() as u32).collect();
                idx.sort_unstable_by(|&x, &y| all[x as usize].cmp(&all[y as usize]));
                let mut dups = 0u64;
                let mut firstdup = String::from("-");
                for w in idx.windows(2) {
                    if all[w[0] as usize] == all[w[1] as usize] {
                        dups += 1;
                        if firstdup == "-" {
                            firstdup = format!("{}/{}", w[0].min(w[1]), w[0].max(w[1]));
                        }
                    }
                }
                let dg = sha2::Digest::finalize(hasher);
                f.ok()
                    .kv("n", n)
                    .kv("okc", okc)
                    .kv("errc", errc)
                    .kv("firsterr", if firsterr.is_empty() { "-".into() } else { firsterr })
                    .kv("dups", if keep { dups.to_string() } else { "-".to_string() })
                    .kv("firstdup", firstdup)
                    .kv("digest", lang::hex(&dg));
                state_s(&mut f, ctx.as_ref());
            }
            "drop" => {
                let name = a.s("ctx");
                let scan = a.u("scan") == 1;
                let before = ledger_str();
                enum Either {
                    S(Box<dyn CtxS>),
                    R(Box<dyn CtxR>),
                }
                let c = if let Some(c) = self.cs.remove(name) {
                    Either::S(c)
                } else if let Some(c) = self.cr.remove(name) {
                    Either::R(c)
                } else {
                    f.skip("noctx");
                    return f;
                };
                let heap = a.u("scan") == 2;
                if scan || heap {
                    let secrets = match &c {
                        Either::S(c) => c.secrets(),
                        Either::R(c) => c.secrets(),
                    };
                    // needles: what the context itself says it stores (hook), else what the case supplies
                    let (bn, es) = match secrets {
                        Some(x) => x,
                        None => (a.b("bn").to_vec(), a.b("es").to_vec()),
                    };
                    let mut named: Vec<(String, Vec<u8>)> = vec![("bn".into(), bn.clone()), ("es".into(), es.clone())];
                    named.extend(derived_needles("bn", &bn));
                    named.extend(derived_needles("es", &es));
                    if heap {
                        // ordinary drop of the boxed context with the freed-memory monitor armed
                        let nd: Vec<Vec<u8>> = named.iter().map(|(_, v)| v.clone()).collect();
                        let (hits, blocks) = crate::heapwatch::watch(&nd, move || match c {
                            Either::S(c) => c.heap_drop(),
                            Either::R(c) => c.heap_drop(),
                        });
                        let hs = named
                            .iter()
                            .zip(hits.iter())
                            .filter(|(_, h)| **h > 0)
                            .map(|((n, _), h)| format!("{}:{}", n, h))
                            .collect::<Vec<_>>()
                            .join(",");
                        f.ok()
                            .kv("bnlen", bn.len())
                            .kv("eslen", es.len())
                            .kv("blocks", blocks)
                            .kv("heap_hits", if hs.is_empty() { "-".to_string() } else { hs });
                        f.kv("lb", before).kv("la", ledger_str());
                        return f;
                    }
                    let needles: Vec<&[u8]> = named.iter().map(|(_, v)| v.as_slice()).collect();
                    let rep = match c {
                        Either::S(c) => c.drop_scan(&needles),
                        Either::R(c) => c.drop_scan(&needles),
                    };
                    let offs = |v: &Vec<usize>| {
                        if v.is_empty() {
                            "-".to_string()
                        } else {
                            v.iter().map(|x| x.to_string()).collect::<Vec<_>>().join(",")
                        }
                    };
                    let zs = |v: &Vec<bool>| {
                        if v.is_empty() {
                            "-".to_string()
                        } else {
                            v.iter().map(|x| if *x { "1" } else { "0" }).collect::<Vec<_>>().join(",")
                        }
                    };
                    let mut der = Vec::new();
                    for (k, (name, _)) in named.iter().enumerate().skip(2) {
                        for (o, z) in rep.pre[k].iter().zip(rep.zero_after[k].iter()) {
                            der.push(format!("{}@{}:{}", name, o, *z as u8));
                        }
                    }
                    f.ok()
                        .kv("size", rep.size)
                        .kv("bnlen", bn.len())
                        .kv("eslen", es.len())
                        .kv("bn_pre", offs(&rep.pre[0]))
                        .kv("es_pre", offs(&rep.pre[1]))
                        .kv("bn_post", rep.post[0])
                        .kv("es_post", rep.post[1])
                        .kv("bn_zero", zs(&rep.zero_after[0]))
                        .kv("es_zero", zs(&rep.zero_after[1]))
                        .kv("derived", if der.is_empty() { "-".to_string() } else { der.join(";") });
                } else {
                    drop(c);
                    f.ok();
                }
                f.kv("lb", before).kv("la", ledger_str());
            }
            "ledger" => {
                f.ok().kv("l", ledger_str());
            }
            "ss_seal" => {
                let mut rng = ScriptRng::new(a.b("rng").to_vec());
                if a.u("reenter") == 1 {
                    rng.reenter = Some(self.ids);
                }
                let inplace = a.s("api") == "inplace";
                let r = self.suite.as_ref().unwrap().ss_seal(
                    &a.mode(),
                    a.b("pkr"),
                    a.b("info"),
                    a.b("pt"),
                    a.b("aad"),
                    &mut rng,
                    inplace,
                );
                match r {
                    None => {
                        f.skip("noalloc");
                    }
                    Some((Ok(o), _)) => {
                        f.ok().kv("enc", out(&o.enc)).kv("ct", out(&o.ct)).kv("tag", out(&o.tag));
                        let mut full = o.ct.clone();
                        full.extend_from_slice(&o.tag);
                        setreg(&mut self.regs, &outname, "enc", &o.enc);
                        setreg(&mut self.regs, &outname, "ct", &o.ct);
                        setreg(&mut self.regs, &outname, "tag", &o.tag);
                        setreg(&mut self.regs, &outname, "full", &full);
                    }
                    Some((Err(e), buf)) => {
                        f.fail(&e);
                        if let Some(b) = buf {
                            f.kv("buf", out(&b));
                        }
                    }
                }
                f.kv("rngd", rng.log()).kv("nested", if rng.nested.is_empty() { "-".to_string() } else { rng.nested.join(",") }).kv("over", rng.over);
            }
            "ss_open" => {
                let inplace = a.s("api") == "inplace";
                let tag = if inplace { Some(a.b("tag")) } else { None };
                let r = self.suite.as_ref().unwrap().ss_open(
                    &a.mode(),
                    a.b("skr"),
                    a.b("enc"),
                    a.b("info"),
                    a.b("ct"),
                    tag,
                    a.b("aad"),
                );
                match r {
                    None => {
                        f.skip("noalloc");
                    }
                    Some(o) => match o.res {
                        Ok(pt) => {
                            f.ok().kv("pt", out(&pt));
                            setreg(&mut self.regs, &outname, "pt", &pt);
                        }
                        Err(e) => {
                            f.fail(&e);
                            if let Some(b) = o.buf {
                                f.kv("buf", out(&b));
                            }
                        }
                    },
                }
            }
            _ => {
                f.kv("caseerr", format!("unknown_op_{}", op));
            }
        }
        f
    }
}
