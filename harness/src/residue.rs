//! Whole-process residue scan. The object scans of suite.rs look at a context's own storage and the allocator monitor
//! at blocks being freed; neither sees a copy of a secret that the library parked somewhere else: a `static`, a
//! thread-local, a leaked box, a long-lived buffer. Here every writable mapping of the process except the thread
//! stacks is searched (on the stack the HMAC/cipher crates legitimately leave key-sized temporaries).
//!
//! The driver must not hold the needle itself in clear: needles are passed XOR-masked and compared on the fly.

pub const MASK: u8 = 0x5A;

/// (start, end, kind) of every `rw` mapping that is not a stack
pub fn regions() -> Vec<(usize, usize, String)> {
    let mut out = Vec::new();
    let Ok(maps) = std::fs::read_to_string("/proc/self/maps") else { return out };
    // the scan runs on the calling thread: leave out the mapping that contains our own stack pointer as well
    let here = &maps as *const String as usize;
    for line in maps.lines() {
        let mut it = line.split_whitespace();
        let (Some(range), Some(perms)) = (it.next(), it.next()) else { continue };
        let path = it.nth(3).unwrap_or("");
        if !perms.starts_with("rw") || path.starts_with("[stack") || path == "[vvar]" || path == "[vsyscall]" || path == "[vdso]" {
            continue;
        }
        let Some((a, b)) = range.split_once('-') else { continue };
        let (Ok(a), Ok(b)) = (usize::from_str_radix(a, 16), usize::from_str_radix(b, 16)) else { continue };
        if here >= a && here < b {
            continue;
        }
        let kind = if path == "[heap]" {
            "heap".to_string()
        } else if path.is_empty() {
            "anon".to_string()
        } else if path.ends_with("/driver") || path.contains("/driver ") {
            "data".to_string()
        } else {
            format!("map:{}", path.rsplit('/').next().unwrap_or(path))
        };
        out.push((a, b, kind));
    }
    out
}

/// For each masked needle: (region kind, address) of every place where the unmasked needle stands in memory
pub fn scan(masked: &[Vec<u8>]) -> Vec<Vec<(String, usize)>> {
    let mut hits: Vec<Vec<(String, usize)>> = masked.iter().map(|_| Vec::new()).collect();
    let own: Vec<(usize, usize)> = masked.iter().map(|m| (m.as_ptr() as usize, m.len())).collect();
    for (a, b, kind) in regions() {
        let len = b - a;
        let base = a as *const u8;
        for (k, m) in masked.iter().enumerate() {
            if m.len() < 8 || m.len() > len {
                continue;
            }
            let first = m[0] ^ MASK;
            let mut i = 0usize;
            while i + m.len() <= len {
                // SAFETY: the range is a readable mapping of this process according to /proc/self/maps read just now;
                // nothing in this single-threaded phase unmaps memory
                let c = unsafe { std::ptr::read_volatile(base.add(i)) };
                if c == first {
                    let mut same = true;
                    for (j, mj) in m.iter().enumerate().skip(1) {
                        if unsafe { std::ptr::read_volatile(base.add(i + j)) } != (mj ^ MASK) {
                            same = false;
                            break;
                        }
                    }
                    if same && !own.iter().any(|(p, l)| a + i >= *p && a + i < p + l) {
                        hits[k].push((kind.clone(), a + i));
                    }
                }
                i += 1;
            }
        }
    }
    hits
}

pub fn mask_in_place(v: &mut [u8]) {
    for b in v.iter_mut() {
        let x = *b ^ MASK;
        // volatile: the clear value must really be gone from this buffer
        unsafe { std::ptr::write_volatile(b, x) };
    }
}

pub fn summary(names: &[&str], hits: &[Vec<(String, usize)>]) -> String {
    let mut parts = Vec::new();
    for (n, h) in names.iter().zip(hits.iter()) {
        let mut kinds: Vec<String> = h.iter().map(|(k, _)| k.clone()).collect();
        kinds.sort();
        let mut agg: Vec<(String, usize)> = Vec::new();
        for k in kinds {
            match agg.last_mut() {
                Some((lk, c)) if *lk == k => *c += 1,
                _ => agg.push((k, 1)),
            }
        }
        let s = if agg.is_empty() { "0".to_string() } else { agg.iter().map(|(k, c)| format!("{}x{}", c, k)).collect::<Vec<_>>().join("+") };
        parts.push(format!("{}:{}", n, s));
    }
    parts.join(",")
}
