//! A mock AEAD plugged into the crate through its public `Aead` trait. It makes two things observable that
//! real AEADs hide: the nonce of every call (echoed in the tag) and the `SealError` path (it can be told to
//! fail). "Encryption" is XOR with 0xAA; tag = nonce (12 bytes) || big-endian length (4 bytes).

use aead::generic_array::typenum::{U0, U12, U16, U32};
use aead::{AeadCore, AeadInPlace, Key, KeyInit, KeySizeUser, Nonce, Tag};
use std::cell::Cell;

thread_local! {
    /// number of upcoming encrypt calls that must fail
    pub static FAIL_SEAL: Cell<u32> = const { Cell::new(0) };
    /// number of encrypt calls seen
    pub static SEALS: Cell<u64> = const { Cell::new(0) };
}

#[derive(Clone)]
pub struct ProbeImpl;

impl KeySizeUser for ProbeImpl {
    type KeySize = U32;
}
impl KeyInit for ProbeImpl {
    fn new(_key: &Key<Self>) -> Self {
        ProbeImpl
    }
}
impl AeadCore for ProbeImpl {
    type NonceSize = U12;
    type TagSize = U16;
    type CiphertextOverhead = U0;
}

fn tag_for(nonce: &[u8], len: usize) -> Tag<ProbeImpl> {
    let mut t = Tag::<ProbeImpl>::default();
    t[..12].copy_from_slice(nonce);
    t[12..].copy_from_slice(&(len as u32).to_be_bytes());
    t
}

impl AeadInPlace for ProbeImpl {
    fn encrypt_in_place_detached(&self, nonce: &Nonce<Self>, _aad: &[u8], buf: &mut [u8]) -> Result<Tag<Self>, aead::Error> {
        SEALS.with(|c| c.set(c.get() + 1));
        let fail = FAIL_SEAL.with(|c| {
            let v = c.get();
            if v > 0 {
                c.set(v - 1);
                true
            } else {
                false
            }
        });
        if fail {
            return Err(aead::Error);
        }
        for b in buf.iter_mut() {
            *b ^= 0xAA;
        }
        Ok(tag_for(nonce, buf.len()))
    }
    fn decrypt_in_place_detached(&self, nonce: &Nonce<Self>, _aad: &[u8], buf: &mut [u8], tag: &Tag<Self>) -> Result<(), aead::Error> {
        if tag_for(nonce, buf.len()) != *tag {
            return Err(aead::Error);
        }
        for b in buf.iter_mut() {
            *b ^= 0xAA;
        }
        Ok(())
    }
}

/// The suite-level handle: AEAD id 0x7777 (not an RFC identifier)
pub struct ProbeAead;
impl hpke::aead::Aead for ProbeAead {
    type AeadImpl = ProbeImpl;
    const AEAD_ID: u16 = 0x7777;
}
