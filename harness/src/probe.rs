//! Mock AEADs plugged into the crate through its public `Aead` trait. They make two things observable that
//! real AEADs hide: the nonce of every call (echoed in the tag) and the `SealError` path (they can be told to
//! fail). "Encryption" is XOR with 0xAA; tag = nonce || big-endian length (4 bytes) || zero padding.
//! Three nonce sizes: 12 bytes (id 0x7777, like the RFC's AEADs), 24 bytes (0x7778, like XChaCha20-Poly1305) and
//! (0x777B: the same with a 64-byte key; 0x777C: the same, but its *attached* in-place forms put the tag in front),
//! 8 bytes (0x7779) and 13 bytes (0x777A, like AES-CCM; not a multiple of 4, tag of 20 bytes): RFC 9180 computes the nonce as base_nonce XOR I2OSP(seq, Nn) for whatever Nn the AEAD has.

use aead::generic_array::typenum::{U0, U12, U13, U16, U20, U24, U32, U64, U8};
use aead::Buffer;
use aead::{AeadCore, AeadInPlace, Key, KeyInit, KeySizeUser, Nonce, Tag};
use std::cell::Cell;

thread_local! {
    /// number of upcoming encrypt calls that must fail
    pub static FAIL_SEAL: Cell<u32> = const { Cell::new(0) };
    /// number of encrypt calls seen
    pub static SEALS: Cell<u64> = const { Cell::new(0) };
    /// number of upcoming decrypt / encrypt calls that must panic (a user-supplied AEAD may do that)
    pub static PANIC_OPEN: Cell<u32> = const { Cell::new(0) };
    pub static PANIC_SEAL: Cell<u32> = const { Cell::new(0) };
}

fn take(c: &'static std::thread::LocalKey<Cell<u32>>) -> bool {
    c.with(|c| {
        let v = c.get();
        if v > 0 {
            c.set(v - 1);
        }
        v > 0
    })
}

fn must_fail() -> bool {
    SEALS.with(|c| c.set(c.get() + 1));
    FAIL_SEAL.with(|c| {
        let v = c.get();
        if v > 0 {
            c.set(v - 1);
            true
        } else {
            false
        }
    })
}

macro_rules! probe_aead {
    ($imp:ident, $suite:ident, $nn:ty, $nt:ty, $nk:ty, $id:expr, $attached_tag_first:expr) => {
        #[derive(Clone)]
        pub struct $imp;
        impl KeySizeUser for $imp {
            type KeySize = $nk;
        }
        impl KeyInit for $imp {
            fn new(_key: &Key<Self>) -> Self {
                $imp
            }
        }
        impl AeadCore for $imp {
            type NonceSize = $nn;
            type TagSize = $nt;
            type CiphertextOverhead = U0;
        }
        impl $imp {
            fn tag_for(nonce: &[u8], len: usize) -> Tag<$imp> {
                let mut t = Tag::<$imp>::default();
                t[..nonce.len()].copy_from_slice(nonce);
                t[nonce.len()..nonce.len() + 4].copy_from_slice(&(len as u32).to_be_bytes());
                t
            }
        }
        impl AeadInPlace for $imp {
            // An AEAD may override the ATTACHED forms with a layout of its own (AES-SIV puts the tag in front). HPKE's
            // wire format is defined through the detached forms (ct || tag), whatever the attached ones do.
            fn encrypt_in_place(&self, nonce: &Nonce<Self>, aad: &[u8], buffer: &mut dyn Buffer) -> Result<(), aead::Error> {
                let tag = self.encrypt_in_place_detached(nonce, aad, buffer.as_mut())?;
                buffer.extend_from_slice(tag.as_slice())?;
                if $attached_tag_first {
                    buffer.as_mut().rotate_right(tag.len());
                }
                Ok(())
            }
            fn decrypt_in_place(&self, nonce: &Nonce<Self>, aad: &[u8], buffer: &mut dyn Buffer) -> Result<(), aead::Error> {
                let nt = Tag::<Self>::default().len();
                let n = buffer.len();
                if n < nt {
                    return Err(aead::Error);
                }
                if $attached_tag_first {
                    buffer.as_mut().rotate_left(nt);
                }
                let (ct, tag) = buffer.as_mut().split_at_mut(n - nt);
                let tag = Tag::<Self>::clone_from_slice(tag);
                self.decrypt_in_place_detached(nonce, aad, ct, &tag)?;
                buffer.truncate(n - nt);
                Ok(())
            }
            fn encrypt_in_place_detached(&self, nonce: &Nonce<Self>, _aad: &[u8], buf: &mut [u8]) -> Result<Tag<Self>, aead::Error> {
                if take(&PANIC_SEAL) {
                    panic!("mock AEAD: deliberate panic in encrypt");
                }
                if must_fail() {
                    return Err(aead::Error);
                }
                for b in buf.iter_mut() {
                    *b ^= 0xAA;
                }
                Ok(Self::tag_for(nonce, buf.len()))
            }
            fn decrypt_in_place_detached(&self, nonce: &Nonce<Self>, _aad: &[u8], buf: &mut [u8], tag: &Tag<Self>) -> Result<(), aead::Error> {
                if take(&PANIC_OPEN) {
                    panic!("mock AEAD: deliberate panic in decrypt");
                }
                if Self::tag_for(nonce, buf.len()) != *tag {
                    return Err(aead::Error);
                }
                for b in buf.iter_mut() {
                    *b ^= 0xAA;
                }
                Ok(())
            }
        }
        /// The suite-level handle (not an RFC identifier)
        pub struct $suite;
        impl hpke::aead::Aead for $suite {
            type AeadImpl = $imp;
            const AEAD_ID: u16 = $id;
        }
    };
}

probe_aead!(ProbeImpl, ProbeAead, U12, U16, U32, 0x7777, false);
probe_aead!(ProbeImpl24, ProbeAead24, U24, U32, U32, 0x7778, false);
probe_aead!(ProbeImpl8, ProbeAead8, U8, U16, U32, 0x7779, false);
probe_aead!(ProbeImpl13, ProbeAead13, U13, U20, U32, 0x777A, false);
// a 64-byte key (the shape of AES-256-SIV)
probe_aead!(ProbeImplK64, ProbeAeadK64, U12, U16, U64, 0x777B, false);
// attached forms with the tag in front
probe_aead!(ProbeImplSiv, ProbeAeadSiv, U12, U16, U32, 0x777C, true);
