//! driver: a deterministic interpreter of case files that calls the public API of the crate
//! under test and writes an event log. It never judges; monitors outside read the log.
//!
//! usage: driver run <cases> <events> [--sched seq|perm:<seed>|interleave:<seed>|threads:<T>|migrate:<T>:<seed>]
//!        driver info

#![allow(dead_code, unused_parens)]
mod heapwatch;
mod lang;
mod mockkem;
mod ops;
mod probe;
mod residue;
mod rng;
mod suite;
mod toy;

use lang::Call;
use ops::Session;
use std::collections::VecDeque;
use std::io::{BufWriter, Write};
use std::sync::atomic::{AtomicUsize, Ordering};
use std::sync::{Arc, Mutex};

struct Script {
    sid: String,
    header: String,
    ids: (u16, u16, u16),
    calls: Vec<Call>,
}

fn parse_cases(text: &str) -> Result<Vec<Script>, String> {
    let mut out: Vec<Script> = Vec::new();
    for (ln, line) in text.lines().enumerate() {
        let line = line.trim();
        if line.is_empty() || line.starts_with('#') {
            continue;
        }
        if line.starts_with("S ") {
            let mut it = line.split_whitespace();
            it.next();
            let sid = it.next().ok_or("S without id")?.to_string();
            let mut ids = (0u16, 0u16, 0u16);
            for kv in it {
                if let Some((k, v)) = kv.split_once('=') {
                    let n = u16::from_str_radix(v, 16).map_err(|e| format!("line {}: {}", ln + 1, e))?;
                    match k {
                        "kem" => ids.0 = n,
                        "kdf" => ids.1 = n,
                        "aead" => ids.2 = n,
                        _ => {}
                    }
                }
            }
            out.push(Script { sid, header: line.to_string(), ids, calls: Vec::new() });
        } else if line.starts_with("C ") {
            let c = Call::parse(line).map_err(|e| format!("line {}: {}", ln + 1, e))?;
            out.last_mut().ok_or("C before S")?.calls.push(c);
        } else if line.starts_with("E ") {
            // explicit end of session; nothing to do
        } else {
            return Err(format!("line {}: unknown record", ln + 1));
        }
    }
    Ok(out)
}

#[global_allocator]
static GLOBAL: heapwatch::Watch = heapwatch::Watch;

static TICKET: AtomicUsize = AtomicUsize::new(0);

/// One line of the schedule trace: which operation ran when, on which thread
fn stamp(trace: &Mutex<Vec<String>>, id: &str, thread: usize) {
    let t = TICKET.fetch_add(1, Ordering::SeqCst);
    trace.lock().unwrap().push(format!("{} {} {}", t, id, thread));
}

struct Live {
    idx: usize,
    sess: Session,
    pc: usize,
    buf: Vec<String>,
}

fn step(l: &mut Live, scripts: &[Script], trace: &Mutex<Vec<String>>, thread: usize) -> bool {
    let sc = &scripts[l.idx];
    if l.pc >= sc.calls.len() {
        return false;
    }
    let c = &sc.calls[l.pc];
    stamp(trace, &c.id, thread);
    l.buf.push(c.raw.clone());
    let (extra, r) = l.sess.exec(c);
    l.buf.extend(extra);
    l.buf.push(r);
    l.pc += 1;
    l.pc < sc.calls.len()
}

fn new_live(idx: usize, sc: &Script) -> Live {
    Live {
        idx,
        sess: Session::new(&sc.sid, sc.ids.0, sc.ids.1, sc.ids.2),
        pc: 0,
        buf: vec![sc.header.clone()],
    }
}

fn jitter(g: &mut lang::SplitMix) {
    match g.next() % 8 {
        0 => std::thread::yield_now(),
        1 => std::thread::sleep(std::time::Duration::from_micros(g.next() % 200)),
        _ => {}
    }
}

fn main() {
    let args: Vec<String> = std::env::args().collect();
    if args.len() >= 2 && args[1] == "info" {
        println!(
            "hooks={} alloc={} x25519={} p256={} p384={} p521={} overflow_checks={}",
            cfg!(hpke_verif),
            cfg!(any(feature = "alloc", feature = "std")),
            cfg!(feature = "x25519"),
            cfg!(feature = "p256"),
            cfg!(feature = "p384"),
            cfg!(feature = "p521"),
            cfg!(debug_assertions),
        );
        return;
    }
    if args.len() < 4 || args[1] != "run" {
        eprintln!("usage: driver run <cases> <events> [--sched ...]");
        std::process::exit(2);
    }
    let mut sched = "seq".to_string();
    let mut i = 4;
    while i < args.len() {
        if args[i] == "--sched" && i + 1 < args.len() {
            sched = args[i + 1].clone();
            i += 1;
        }
        i += 1;
    }
    let text = std::fs::read_to_string(&args[2]).unwrap_or_else(|e| {
        eprintln!("cannot read cases: {e}");
        std::process::exit(2)
    });
    let scripts = parse_cases(&text).unwrap_or_else(|e| {
        eprintln!("case file: {e}");
        std::process::exit(2)
    });
    ops::install_panic_hook();
    let file = std::fs::File::create(&args[3]).expect("create events");
    let mut w = BufWriter::new(file);
    let trace: Mutex<Vec<String>> = Mutex::new(Vec::new());

    let parts: Vec<&str> = sched.split(':').collect();
    match parts[0] {
        "seq" => {
            // streaming: call event flushed before the call, so a crash is attributable
            for sc in &scripts {
                writeln!(w, "{}", sc.header).unwrap();
                let mut s = Session::new(&sc.sid, sc.ids.0, sc.ids.1, sc.ids.2);
                for c in &sc.calls {
                    writeln!(w, "{}", c.raw).unwrap();
                    w.flush().unwrap();
                    stamp(&trace, &c.id, 0);
                    let (extra, r) = s.exec(c);
                    for e in extra {
                        writeln!(w, "{}", e).unwrap();
                    }
                    writeln!(w, "{}", r).unwrap();
                }
                writeln!(w, "E {}", sc.sid).unwrap();
            }
        }
        "stack" => {
            // like "seq", but every session runs on its own thread whose stack has the given size (KiB): a library
            // call that needs more stack than that kills the process (guard page), which the call-before-invoke log
            // attributes to the call
            let kib: usize = parts.get(1).and_then(|s| s.parse().ok()).unwrap_or(64);
            for sc in &scripts {
                writeln!(w, "{}", sc.header).unwrap();
                let (wr, trace) = (&mut w, &trace);
                std::thread::scope(|s| {
                    let h = std::thread::Builder::new().stack_size(kib * 1024).spawn_scoped(s, move || {
                        ops::install_panic_hook();
                        let mut sess = Session::new(&sc.sid, sc.ids.0, sc.ids.1, sc.ids.2);
                        for c in &sc.calls {
                            writeln!(wr, "{}", c.raw).unwrap();
                            wr.flush().unwrap();
                            stamp(trace, &c.id, 1);
                            let (extra, r) = sess.exec(c);
                            for e in extra {
                                writeln!(wr, "{}", e).unwrap();
                            }
                            writeln!(wr, "{}", r).unwrap();
                        }
                    });
                    h.expect("spawn").join().ok();
                });
                writeln!(w, "E {}", sc.sid).unwrap();
            }
        }
        "perm" | "interleave" => {
            let seed: u64 = parts.get(1).and_then(|s| s.parse().ok()).unwrap_or(1);
            let mut g = lang::SplitMix(seed);
            let mut order: Vec<usize> = (0..scripts.len()).collect();
            for k in (1..order.len()).rev() {
                let j = (g.next() % (k as u64 + 1)) as usize;
                order.swap(k, j);
            }
            let mut done: Vec<Option<Vec<String>>> = (0..scripts.len()).map(|_| None).collect();
            if parts[0] == "perm" {
                for &ix in &order {
                    let mut l = new_live(ix, &scripts[ix]);
                    while step(&mut l, &scripts, &trace, 0) {}
                    done[ix] = Some(l.buf);
                }
            } else {
                // operation-granular interleaving of up to `width` live sessions on one thread
                let width: usize = parts.get(2).and_then(|s| s.parse().ok()).unwrap_or(8);
                let mut pending: VecDeque<usize> = order.into_iter().collect();
                let mut live: Vec<Live> = Vec::new();
                loop {
                    while live.len() < width {
                        match pending.pop_front() {
                            Some(ix) => live.push(new_live(ix, &scripts[ix])),
                            None => break,
                        }
                    }
                    if live.is_empty() {
                        break;
                    }
                    let k = (g.next() % live.len() as u64) as usize;
                    let more = step(&mut live[k], &scripts, &trace, 0);
                    if !more {
                        let l = live.swap_remove(k);
                        done[l.idx] = Some(l.buf);
                    }
                }
            }
            for (ix, d) in done.into_iter().enumerate() {
                for line in d.unwrap_or_default() {
                    writeln!(w, "{}", line).unwrap();
                }
                writeln!(w, "E {}", scripts[ix].sid).unwrap();
            }
        }
        "threads" => {
            let t: usize = parts.get(1).and_then(|s| s.parse().ok()).unwrap_or(4);
            let next = AtomicUsize::new(0);
            let done: Mutex<Vec<Option<Vec<String>>>> =
                Mutex::new((0..scripts.len()).map(|_| None).collect());
            std::thread::scope(|s| {
                for th in 0..t {
                    let (next, done, scripts, trace) = (&next, &done, &scripts, &trace);
                    s.spawn(move || {
                        ops::install_panic_hook();
                        loop {
                            let ix = next.fetch_add(1, Ordering::SeqCst);
                            if ix >= scripts.len() {
                                break;
                            }
                            let mut l = new_live(ix, &scripts[ix]);
                            while step(&mut l, scripts, trace, th) {}
                            done.lock().unwrap()[ix] = Some(l.buf);
                        }
                    });
                }
            });
            for (ix, d) in done.into_inner().unwrap().into_iter().enumerate() {
                for line in d.unwrap_or_default() {
                    writeln!(w, "{}", line).unwrap();
                }
                writeln!(w, "E {}", scripts[ix].sid).unwrap();
            }
        }
        "migrate" => {
            // every operation of a session is executed by whichever worker picks the session up
            // next; the live session (contexts included) moves between threads through the queue
            let t: usize = parts.get(1).and_then(|s| s.parse().ok()).unwrap_or(4);
            let seed: u64 = parts.get(2).and_then(|s| s.parse().ok()).unwrap_or(1);
            let queue: Arc<Mutex<VecDeque<Live>>> = Arc::new(Mutex::new(
                scripts.iter().enumerate().map(|(ix, sc)| new_live(ix, sc)).collect(),
            ));
            let done: Mutex<Vec<Option<Vec<String>>>> =
                Mutex::new((0..scripts.len()).map(|_| None).collect());
            let remaining = AtomicUsize::new(scripts.len());
            std::thread::scope(|s| {
                for th in 0..t {
                    let (queue, done, scripts, trace, remaining) =
                        (&queue, &done, &scripts, &trace, &remaining);
                    s.spawn(move || {
                        ops::install_panic_hook();
                        let mut g = lang::SplitMix(seed ^ ((th as u64 + 1) * 0x9E37_79B9));
                        loop {
                            let item = {
                                let mut q = queue.lock().unwrap();
                                if q.is_empty() {
                                    None
                                } else {
                                    // take from a random position so sessions overtake each other
                                    let k = (g.next() % q.len() as u64) as usize;
                                    q.swap_remove_back(k)
                                }
                            };
                            let Some(mut l) = item else {
                                if remaining.load(Ordering::SeqCst) == 0 {
                                    break;
                                }
                                std::thread::yield_now();
                                continue;
                            };
                            jitter(&mut g);
                            let more = step(&mut l, scripts, trace, th);
                            if more {
                                queue.lock().unwrap().push_back(l);
                            } else {
                                done.lock().unwrap()[l.idx] = Some(l.buf);
                                remaining.fetch_sub(1, Ordering::SeqCst);
                            }
                        }
                    });
                }
            });
            for (ix, d) in done.into_inner().unwrap().into_iter().enumerate() {
                for line in d.unwrap_or_default() {
                    writeln!(w, "{}", line).unwrap();
                }
                writeln!(w, "E {}", scripts[ix].sid).unwrap();
            }
        }
        other => {
            eprintln!("unknown sched {}", other);
            std::process::exit(2);
        }
    }
    w.flush().unwrap();
    // schedule trace next to the event log
    let mut tf = BufWriter::new(std::fs::File::create(format!("{}.sched", &args[3])).unwrap());
    for l in trace.into_inner().unwrap() {
        writeln!(tf, "{}", l).unwrap();
    }
    tf.flush().unwrap();
}
