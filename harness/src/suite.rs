//! Thin adapters from the byte-oriented operation language to the generic public API of the
//! crate under test. One `KemOps` impl per KEM, one `SuiteOps` impl per ciphersuite, contexts as
//! trait objects. Nothing in here judges anything; it only calls and reports.

use crate::rng::ScriptRng;
use hpke::aead::{Aead, AeadCtxR, AeadCtxS, AeadTag};
use hpke::kdf::Kdf;
use hpke::kem::{Kem, SharedSecret};
use hpke::{Deserializable, HpkeError, OpModeR, OpModeS, PskBundle, Serializable};
use std::marker::PhantomData;
use std::mem::MaybeUninit;

/// `(error, stage)`: stage is "" when the operation itself failed and the name of an argument
/// when turning that argument's bytes into a typed value failed
pub type Fail = (HpkeError, &'static str);
pub type R<T> = Result<T, Fail>;

fn at<T>(r: Result<T, HpkeError>, stage: &'static str) -> R<T> {
    r.map_err(|e| (e, stage))
}

thread_local! {
    /// byte offset (0..15) at which byte-aligned key objects are placed before they are handed to the library
    pub static KEY_OFFSET: std::cell::Cell<usize> = const { std::cell::Cell::new(0) };
}

/// Hands `v` to `f` from an address that is `KEY_OFFSET` bytes past a 16-byte boundary. Only for types whose alignment is
/// 1 (byte-array keys: X25519 public and encapsulated keys), where every address is a valid place for the object: code
/// that looks at a key through wider loads must not depend on where the caller keeps it.
fn placed<T, R>(v: T, f: impl FnOnce(&T) -> R) -> R {
    let k = KEY_OFFSET.with(|c| c.get()) % 16;
    if k == 0 || std::mem::align_of::<T>() != 1 {
        return f(&v);
    }
    let mut buf = vec![0u8; std::mem::size_of::<T>() + 32];
    let base = buf.as_mut_ptr() as usize;
    let p = (((base + 15) & !15) + k) as *mut T;
    // SAFETY: p..p+size_of::<T>() lies inside `buf`, T has alignment 1, the value is dropped in place before `buf`
    unsafe {
        p.write(v);
        let r = f(&*p);
        std::ptr::drop_in_place(p);
        r
    }
}

pub fn err_name(e: &HpkeError) -> String {
    // every error the driver ever sees is also rendered the way an application would log it (Display, Debug):
    // a formatter that panics on some payload shows up as a panic of the call that returned the error
    let _ = std::hint::black_box(format!("{} {:?}", e, e));
    match e {
        HpkeError::MessageLimitReached => "MessageLimitReached".into(),
        HpkeError::OpenError => "OpenError".into(),
        HpkeError::SealError => "SealError".into(),
        HpkeError::KdfOutputTooLong => "KdfOutputTooLong".into(),
        HpkeError::ValidationError => "ValidationError".into(),
        HpkeError::EncapError => "EncapError".into(),
        HpkeError::DecapError => "DecapError".into(),
        HpkeError::IncorrectInputLength(a, b) => format!("IncorrectInputLength:{}:{}", a, b),
        HpkeError::InvalidPskBundle => "InvalidPskBundle".into(),
    }
}

#[derive(Default, Clone)]
pub struct ModeArgs {
    pub mode: u8,
    pub psk: Vec<u8>,
    pub pskid: Vec<u8>,
    /// sender: private identity key bytes
    pub sks: Vec<u8>,
    /// sender: the public key passed alongside; receiver: the expected sender public key
    pub pks: Vec<u8>,
}

fn mode_s<'a, K: Kem>(m: &'a ModeArgs) -> R<OpModeS<'a, K>> {
    let bundle = || at(PskBundle::new(&m.psk, &m.pskid), "bundle");
    let kp = || -> R<(K::PrivateKey, K::PublicKey)> {
        let sk = at(K::PrivateKey::from_bytes(&m.sks), "sks")?;
        let pk = at(K::PublicKey::from_bytes(&m.pks), "pks")?;
        Ok((sk, pk))
    };
    Ok(match m.mode {
        0 => OpModeS::Base,
        1 => OpModeS::Psk(bundle()?),
        2 => OpModeS::Auth(kp()?),
        _ => OpModeS::AuthPsk(kp()?, bundle()?),
    })
}

fn mode_r<'a, K: Kem>(m: &'a ModeArgs) -> R<OpModeR<'a, K>> {
    let bundle = || at(PskBundle::new(&m.psk, &m.pskid), "bundle");
    let pk = || at(K::PublicKey::from_bytes(&m.pks), "pks");
    Ok(match m.mode {
        0 => OpModeR::Base,
        1 => OpModeR::Psk(bundle()?),
        2 => OpModeR::Auth(pk()?),
        _ => OpModeR::AuthPsk(pk()?, bundle()?),
    })
}

// ---------------------------------------------------------------------------------------------
// Memory scan around a drop (property C16)
// ---------------------------------------------------------------------------------------------

pub struct ScanReport {
    pub size: usize,
    /// per needle: offsets at which it was found before the drop
    pub pre: Vec<Vec<usize>>,
    /// per needle: number of places it is still found after the drop
    pub post: Vec<usize>,
    /// per needle, per pre-drop offset: whether all bytes there are zero after the drop
    pub zero_after: Vec<Vec<bool>>,
}

fn find_all(hay: &[u8], needle: &[u8]) -> Vec<usize> {
    if needle.is_empty() || needle.len() > hay.len() {
        return Vec::new();
    }
    (0..=hay.len() - needle.len())
        .filter(|&i| &hay[i..i + needle.len()] == needle)
        .collect()
}

/// Moves `val` into a slot this function owns, photographs the slot's bytes, runs the value's
/// destructor in place, photographs again. Only the object's own storage is looked at.
thread_local! {
    /// when set, `scan_drop` runs the destructor from a guard that is dropped while a panic unwinds
    pub static DROP_WHILE_UNWINDING: std::cell::Cell<bool> = const { std::cell::Cell::new(false) };
}

struct DropInPlaceGuard<T>(*mut T);
impl<T> Drop for DropInPlaceGuard<T> {
    fn drop(&mut self) {
        unsafe { std::ptr::drop_in_place(self.0) }
    }
}

pub fn scan_drop<T>(val: T, needles: &[&[u8]]) -> ScanReport {
    let n = std::mem::size_of::<T>();
    let mut slot = MaybeUninit::<T>::uninit();
    let p = slot.as_mut_ptr() as *mut u8;
    // Give every byte (padding included) a defined physical value before the typed write
    unsafe { std::ptr::write_bytes(p, 0xA5, n) };
    unsafe { slot.as_mut_ptr().write(val) };
    let snap = |p: *const u8| -> Vec<u8> {
        (0..n).map(|i| unsafe { std::ptr::read_volatile(p.add(i)) }).collect()
    };
    let pre = snap(p);
    if DROP_WHILE_UNWINDING.with(|c| c.get()) {
        // the value is dropped by a guard while a panic unwinds through this frame (std::thread::panicking() is true
        // inside the value's destructor), the way a context owned by a panicking request handler is dropped
        let ptr = slot.as_mut_ptr() as usize;
        let _ = std::panic::catch_unwind(move || {
            let _g = DropInPlaceGuard(ptr as *mut T);
            panic!("drop-while-unwinding probe");
        });
    } else {
        unsafe { std::ptr::drop_in_place(slot.as_mut_ptr()) };
    }
    let post = snap(p);
    let mut rep = ScanReport { size: n, pre: vec![], post: vec![], zero_after: vec![] };
    for nd in needles {
        let offs = find_all(&pre, nd);
        rep.post.push(find_all(&post, nd).len());
        rep.zero_after
            .push(offs.iter().map(|&o| post[o..o + nd.len()].iter().all(|b| *b == 0)).collect());
        rep.pre.push(offs);
    }
    rep
}

// ---------------------------------------------------------------------------------------------
// Contexts
// ---------------------------------------------------------------------------------------------

pub trait CtxCommon: Send + Sync {
    fn export(&self, exctx: &[u8], out: &mut [u8]) -> Result<(), HpkeError>;
    /// false when the crate was built without hooks
    fn set_seq(&mut self, seq: u64) -> bool;
    fn seq_state(&self) -> Option<(u64, bool)>;
    /// (base_nonce, exporter_secret) as stored in the context, through the hook
    fn secrets(&self) -> Option<(Vec<u8>, Vec<u8>)>;
    fn drop_scan(self: Box<Self>, needles: &[&[u8]]) -> ScanReport;
    /// Offsets at which each needle is found in the live context's own storage (no drop)
    fn peek(&self, needles: &[&[u8]]) -> (usize, Vec<Vec<usize>>);
    /// XORs 0xFF over `len` bytes at `off` of the live context's own storage (an involution: calling it
    /// twice restores the bytes). Used to find out whether a region is read by the library at all.
    fn poke(&mut self, off: usize, len: usize);
    /// Ordinary drop of the boxed context with its concrete type known at the call site, so that the
    /// destructor and the deallocation are compiled together exactly as in user code that owns a
    /// `Box<AeadCtxS<..>>` (a virtual drop through `Box<dyn ..>` would hide one from the other).
    fn heap_drop(self: Box<Self>);
}

pub trait CtxS: CtxCommon {
    /// None when the allocating API is not compiled in
    fn seal_alloc(&mut self, pt: &[u8], aad: &[u8]) -> Option<Result<Vec<u8>, HpkeError>>;
    /// Ok(tag bytes)
    fn seal_inplace(&mut self, buf: &mut [u8], aad: &[u8]) -> Result<Vec<u8>, HpkeError>;
}

pub trait CtxR: CtxCommon {
    fn open_alloc(&mut self, ct: &[u8], aad: &[u8]) -> Option<Result<Vec<u8>, HpkeError>>;
    fn open_inplace(&mut self, buf: &mut [u8], aad: &[u8], tag: &[u8]) -> R<()>;
}

macro_rules! ctx_common {
    ($ty:ident) => {
        impl<A: Aead + 'static, K: Kdf + 'static, M: Kem + 'static> CtxCommon for $ty<A, K, M>
        where
            $ty<A, K, M>: Send + Sync,
        {
            fn export(&self, exctx: &[u8], out: &mut [u8]) -> Result<(), HpkeError> {
                $ty::export(self, exctx, out)
            }
            #[allow(unused_variables)]
            fn set_seq(&mut self, seq: u64) -> bool {
                #[cfg(hpke_verif)]
                {
                    self.verif_set_seq(seq);
                    true
                }
                #[cfg(not(hpke_verif))]
                {
                    false
                }
            }
            fn seq_state(&self) -> Option<(u64, bool)> {
                #[cfg(hpke_verif)]
                {
                    Some(self.verif_seq_state())
                }
                #[cfg(not(hpke_verif))]
                {
                    None
                }
            }
            fn secrets(&self) -> Option<(Vec<u8>, Vec<u8>)> {
                #[cfg(hpke_verif)]
                {
                    let mut n = [0u8; 256];
                    let mut e = [0u8; 256];
                    let (ln, le) = self.verif_secrets(&mut n, &mut e);
                    Some((n[..ln].to_vec(), e[..le].to_vec()))
                }
                #[cfg(not(hpke_verif))]
                {
                    None
                }
            }
            fn drop_scan(self: Box<Self>, needles: &[&[u8]]) -> ScanReport {
                scan_drop::<Self>(*self, needles)
            }
            fn heap_drop(self: Box<Self>) {
                drop(self)
            }
            fn poke(&mut self, off: usize, len: usize) {
                let n = std::mem::size_of::<Self>();
                if off + len > n {
                    return;
                }
                let p = self as *mut Self as *mut u8;
                for i in off..off + len {
                    unsafe {
                        let b = std::ptr::read_volatile(p.add(i));
                        std::ptr::write_volatile(p.add(i), b ^ 0xFF);
                    }
                }
            }
            fn peek(&self, needles: &[&[u8]]) -> (usize, Vec<Vec<usize>>) {
                let n = std::mem::size_of::<Self>();
                let p = self as *const Self as *const u8;
                let snap: Vec<u8> = (0..n).map(|i| unsafe { std::ptr::read_volatile(p.add(i)) }).collect();
                (n, needles.iter().map(|nd| find_all(&snap, nd)).collect())
            }
        }
    };
}
ctx_common!(AeadCtxS);
ctx_common!(AeadCtxR);

impl<A: Aead + 'static, K: Kdf + 'static, M: Kem + 'static> CtxS for AeadCtxS<A, K, M>
where
    AeadCtxS<A, K, M>: Send + Sync,
{
    #[allow(unused_variables)]
    fn seal_alloc(&mut self, pt: &[u8], aad: &[u8]) -> Option<Result<Vec<u8>, HpkeError>> {
        #[cfg(any(feature = "alloc", feature = "std"))]
        {
            Some(self.seal(pt, aad))
        }
        #[cfg(not(any(feature = "alloc", feature = "std")))]
        {
            None
        }
    }
    fn seal_inplace(&mut self, buf: &mut [u8], aad: &[u8]) -> Result<Vec<u8>, HpkeError> {
        self.seal_in_place_detached(buf, aad).map(|t| t.to_bytes().to_vec())
    }
}

impl<A: Aead + 'static, K: Kdf + 'static, M: Kem + 'static> CtxR for AeadCtxR<A, K, M>
where
    AeadCtxR<A, K, M>: Send + Sync,
{
    #[allow(unused_variables)]
    fn open_alloc(&mut self, ct: &[u8], aad: &[u8]) -> Option<Result<Vec<u8>, HpkeError>> {
        #[cfg(any(feature = "alloc", feature = "std"))]
        {
            Some(self.open(ct, aad))
        }
        #[cfg(not(any(feature = "alloc", feature = "std")))]
        {
            None
        }
    }
    fn open_inplace(&mut self, buf: &mut [u8], aad: &[u8], tag: &[u8]) -> R<()> {
        let tag = at(AeadTag::<A>::from_bytes(tag), "tag")?;
        at(self.open_in_place_detached(buf, aad, &tag), "")
    }
}

// ---------------------------------------------------------------------------------------------
// KEM-level operations
// ---------------------------------------------------------------------------------------------

pub struct KemScan {
    pub pre: Vec<u8>,
    pub post: Vec<u8>,
}

pub trait KemOps: Send + Sync {
    fn kem_id(&self) -> u16;
    /// (Npk, Nsk, Nenc, Nsecret) as the types report them
    fn sizes(&self) -> (usize, usize, usize, usize);
    /// (sk, pk, sk_to_pk(sk))
    fn derive_keypair(&self, ikm: &[u8]) -> (Vec<u8>, Vec<u8>, Vec<u8>);
    fn gen_keypair(&self, rng: &mut ScriptRng) -> (Vec<u8>, Vec<u8>);
    fn sk_to_pk(&self, sk: &[u8]) -> R<Vec<u8>>;
    /// kind: "pk" | "sk" | "enc". Ok((re-serialized bytes, to_bytes().len(), from_bytes(to_bytes(v)) == v))
    fn from_bytes(&self, kind: &str, b: &[u8]) -> R<(Vec<u8>, bool)>;
    /// Deserializes then `write_exact`s into a buffer of `buflen` bytes. May panic.
    fn write_exact(&self, kind: &str, b: &[u8], buflen: usize) -> R<Vec<u8>>;
    /// Ok((shared secret, enc, scan))
    fn encap(
        &self,
        pkr: &[u8],
        id: Option<(&[u8], &[u8])>,
        rng: &mut ScriptRng,
        scan: bool,
    ) -> R<(Vec<u8>, Vec<u8>, Option<KemScan>)>;
    fn decap(
        &self,
        skr: &[u8],
        pks: Option<&[u8]>,
        enc: &[u8],
        scan: bool,
    ) -> R<(Vec<u8>, Option<KemScan>)>;
    /// `threads` threads, each with its OWN recipient key pair and encapsulated key (derived from `ikm` and the
    /// thread index), decapsulate `reps` times concurrently; every result is compared with the value the same
    /// call gave sequentially beforehand. Returns (mismatches, calls).
    fn decap_storm(&self, ikm: &[u8], threads: usize, reps: usize, auth: bool) -> (u64, u64);
    /// `window` key pairs are derived and remembered; then `n` private-key objects are constructed and dropped on
    /// this thread; then each remembered private key is parsed afresh and its public key recomputed.
    /// Returns (objects constructed, mismatches).
    fn key_mill(&self, ikm: &[u8], n: u64, window: usize) -> (u64, u64);
    /// Encapsulates, parks the shared secret in a heap box, scans the process for it, drops it, scans again.
    /// Returns the two scan summaries.
    fn residue_kem(&self, pkr: &[u8], rng: &mut ScriptRng) -> R<(String, String)>;
    /// Display and Debug renderings of every error variant (feature sets must agree on them)
    fn error_strings(&self) -> Vec<String>;
}

pub struct Kx<M: Kem>(pub PhantomData<fn() -> M>);

fn ss_out<M: Kem>(ss: SharedSecret<M>, scan: bool) -> (Vec<u8>, Option<KemScan>) {
    let bytes = ss.0.to_vec();
    if !scan {
        return (bytes, None);
    }
    // Photograph the shared secret's own storage around its destructor
    let n = std::mem::size_of::<SharedSecret<M>>();
    let mut slot = MaybeUninit::<SharedSecret<M>>::uninit();
    let p = slot.as_mut_ptr() as *mut u8;
    unsafe { std::ptr::write_bytes(p, 0xA5, n) };
    unsafe { slot.as_mut_ptr().write(ss) };
    let snap = |p: *const u8| -> Vec<u8> {
        (0..n).map(|i| unsafe { std::ptr::read_volatile(p.add(i)) }).collect()
    };
    let pre = snap(p);
    if DROP_WHILE_UNWINDING.with(|c| c.get()) {
        let ptr = slot.as_mut_ptr() as usize;
        let _ = std::panic::catch_unwind(move || {
            let _g = DropInPlaceGuard(ptr as *mut SharedSecret<M>);
            panic!("drop-while-unwinding probe");
        });
    } else {
        unsafe { std::ptr::drop_in_place(slot.as_mut_ptr()) };
    }
    let post = snap(p);
    (bytes, Some(KemScan { pre, post }))
}

impl<M: Kem + 'static> KemOps for Kx<M>
where
    M::PublicKey: 'static + Send + Sync + std::fmt::Debug,
    M::PrivateKey: Send + Sync,
    M::EncappedKey: Send + Sync,
{
    fn decap_storm(&self, ikm: &[u8], threads: usize, reps: usize, auth: bool) -> (u64, u64) {
        let mut keys = Vec::new();
        for t in 0..threads {
            let mut seed = ikm.to_vec();
            seed.push(t as u8);
            let (sk, pk) = M::derive_keypair(&seed);
            seed.push(0xE0);
            let (sks, pks) = M::derive_keypair(&seed);
            let mut rng = ScriptRng::new(crate::lang::prand(t as u64 + 77, 200));
            let id = if auth { Some((&sks, &pks)) } else { None };
            let (ss, enc) = match M::encap(&pk, id, &mut rng) {
                Ok(x) => x,
                Err(_) => continue,
            };
            let pks_opt = if auth { Some(pks.clone()) } else { None };
            // what decap gives sequentially, before any concurrency
            let expected = match M::decap(&sk, pks_opt.as_ref(), &enc) {
                Ok(s) => s.0.to_vec(),
                Err(_) => Vec::new(),
            };
            let _ = ss;
            keys.push((sk, enc, expected, pks_opt));
        }
        let barrier = std::sync::Barrier::new(keys.len());
        let bad: u64 = std::thread::scope(|s| {
            let hs: Vec<_> = keys
                .iter()
                .map(|(sk, enc, expected, pks_opt)| {
                    let barrier = &barrier;
                    s.spawn(move || {
                        let mut bad = 0u64;
                        barrier.wait();
                        for _ in 0..reps {
                            let got = match M::decap(sk, pks_opt.as_ref(), enc) {
                                Ok(s) => s.0.to_vec(),
                                Err(_) => Vec::new(),
                            };
                            if &got != expected {
                                bad += 1;
                            }
                        }
                        bad
                    })
                })
                .collect();
            hs.into_iter().map(|h| h.join().expect("storm thread panicked")).sum()
        });
        (bad, (keys.len() * reps) as u64)
    }
    fn residue_kem(&self, pkr: &[u8], rng: &mut ScriptRng) -> R<(String, String)> {
        let pkr = at(M::PublicKey::from_bytes(pkr), "pkr")?;
        let (ss, _enc) = at(M::encap(&pkr, None, rng), "")?;
        let boxed = Box::new(ss);
        let mut m = boxed.0.to_vec();
        crate::residue::mask_in_place(&mut m);
        let masked = vec![m];
        let before = crate::residue::scan(&masked);
        drop(boxed);
        let after = crate::residue::scan(&masked);
        Ok((crate::residue::summary(&["ss"], &before), crate::residue::summary(&["ss"], &after)))
    }
    fn key_mill(&self, ikm: &[u8], n: u64, window: usize) -> (u64, u64) {
        let keys: Vec<(Vec<u8>, Vec<u8>)> = (0..window)
            .map(|j| {
                let mut seed = ikm.to_vec();
                seed.push(j as u8);
                let (sk, pk) = M::derive_keypair(&seed);
                (sk.to_bytes().to_vec(), pk.to_bytes().to_vec())
            })
            .collect();
        // the last thing the library saw before the mill: key 0 and its public key
        let a = M::PrivateKey::from_bytes(&keys[0].0).unwrap();
        let _ = M::sk_to_pk(&a).to_bytes();
        let filler = keys[window / 2].0.clone();
        let mut made = 0u64;
        for _ in 0..n {
            let k = M::PrivateKey::from_bytes(std::hint::black_box(&filler));
            made += k.is_ok() as u64;
            std::hint::black_box(&k);
        }
        let mut bad = 0u64;
        // the very next object after exactly `n` fillers (the caller chooses n around 2^32 - 1, so that this object is
        // the 2^32-th after key 0, give or take a few): its public key must be its own, not key 0's
        {
            let (sk, pk) = &keys[1];
            let k = M::PrivateKey::from_bytes(sk).unwrap();
            made += 1;
            if M::sk_to_pk(&k).to_bytes().as_slice() != pk.as_slice() {
                bad += 1;
            }
        }
        for (sk, pk) in keys.iter().rev() {
            let k = M::PrivateKey::from_bytes(sk).unwrap();
            made += 1;
            if M::sk_to_pk(&k).to_bytes().as_slice() != pk.as_slice() {
                bad += 1;
            }
        }
        (made, bad)
    }
    fn error_strings(&self) -> Vec<String> {
        let all = [
            HpkeError::MessageLimitReached,
            HpkeError::OpenError,
            HpkeError::SealError,
            HpkeError::KdfOutputTooLong,
            HpkeError::ValidationError,
            HpkeError::EncapError,
            HpkeError::DecapError,
            HpkeError::IncorrectInputLength(65, 33),
            HpkeError::IncorrectInputLength(33, 65),
            HpkeError::IncorrectInputLength(0, 1),
            HpkeError::IncorrectInputLength(32, usize::MAX),
            HpkeError::IncorrectInputLength(usize::MAX, 0),
            HpkeError::InvalidPskBundle,
        ];
        all.iter().map(|e| format!("{}|{:?}", e, e)).collect()
    }
    fn kem_id(&self) -> u16 {
        M::KEM_ID
    }
    fn sizes(&self) -> (usize, usize, usize, usize) {
        (
            M::PublicKey::size(),
            M::PrivateKey::size(),
            M::EncappedKey::size(),
            <M::NSecret as hpke::generic_array::typenum::Unsigned>::to_usize(),
        )
    }
    fn derive_keypair(&self, ikm: &[u8]) -> (Vec<u8>, Vec<u8>, Vec<u8>) {
        let (sk, pk) = M::derive_keypair(ikm);
        let pk2 = M::sk_to_pk(&sk);
        (sk.to_bytes().to_vec(), pk.to_bytes().to_vec(), pk2.to_bytes().to_vec())
    }
    fn gen_keypair(&self, rng: &mut ScriptRng) -> (Vec<u8>, Vec<u8>) {
        let (sk, pk) = M::gen_keypair(rng);
        (sk.to_bytes().to_vec(), pk.to_bytes().to_vec())
    }
    fn sk_to_pk(&self, sk: &[u8]) -> R<Vec<u8>> {
        let sk = at(M::PrivateKey::from_bytes(sk), "sk")?;
        Ok(M::sk_to_pk(&sk).to_bytes().to_vec())
    }
    fn from_bytes(&self, kind: &str, b: &[u8]) -> R<(Vec<u8>, bool)> {
        match kind {
            "pk" => {
                let v = at(M::PublicKey::from_bytes(b), "")?;
                // an application logging a remote key it has just parsed
                let _ = std::hint::black_box(format!("{:?}", v));
                let re = v.to_bytes().to_vec();
                #[allow(clippy::eq_op)]
                let eq = M::PublicKey::from_bytes(&re).map(|w| w == v && v == w && v.clone() == v && v == v).unwrap_or(false);
                Ok((re, eq))
            }
            "sk" => {
                let v = at(M::PrivateKey::from_bytes(b), "")?;
                let re = v.to_bytes().to_vec();
                #[allow(clippy::eq_op)]
                let eq = M::PrivateKey::from_bytes(&re).map(|w| w == v && v == w && v.clone() == v && v == v).unwrap_or(false);
                Ok((re, eq))
            }
            _ => {
                let v = at(M::EncappedKey::from_bytes(b), "")?;
                let re = v.to_bytes().to_vec();
                // EncappedKey has no PartialEq; equality is decided on the serialization
                let eq = M::EncappedKey::from_bytes(&re)
                    .map(|w| w.to_bytes().to_vec() == re)
                    .unwrap_or(false);
                Ok((re, eq))
            }
        }
    }
    fn write_exact(&self, kind: &str, b: &[u8], buflen: usize) -> R<Vec<u8>> {
        let mut buf = vec![0x5Au8; buflen];
        match kind {
            "pk" => at(M::PublicKey::from_bytes(b), "bytes")?.write_exact(&mut buf),
            "sk" => at(M::PrivateKey::from_bytes(b), "bytes")?.write_exact(&mut buf),
            _ => at(M::EncappedKey::from_bytes(b), "bytes")?.write_exact(&mut buf),
        }
        Ok(buf)
    }
    fn encap(
        &self,
        pkr: &[u8],
        id: Option<(&[u8], &[u8])>,
        rng: &mut ScriptRng,
        scan: bool,
    ) -> R<(Vec<u8>, Vec<u8>, Option<KemScan>)> {
        let pkr = at(M::PublicKey::from_bytes(pkr), "pkr")?;
        let kp = match id {
            Some((sks, pks)) => Some((
                at(M::PrivateKey::from_bytes(sks), "sks")?,
                at(M::PublicKey::from_bytes(pks), "pks")?,
            )),
            None => None,
        };
        let (ss, enc) = at(placed(pkr, |pkr| M::encap(pkr, kp.as_ref().map(|(a, b)| (a, b)), rng)), "")?;
        let (b, sc) = ss_out::<M>(ss, scan);
        Ok((b, enc.to_bytes().to_vec(), sc))
    }
    fn decap(
        &self,
        skr: &[u8],
        pks: Option<&[u8]>,
        enc: &[u8],
        scan: bool,
    ) -> R<(Vec<u8>, Option<KemScan>)> {
        let skr = at(M::PrivateKey::from_bytes(skr), "skr")?;
        let pks = match pks {
            Some(p) => Some(at(M::PublicKey::from_bytes(p), "pks")?),
            None => None,
        };
        let enc = at(M::EncappedKey::from_bytes(enc), "enc")?;
        let ss = at(placed(enc, |enc| M::decap(&skr, pks.as_ref(), enc)), "")?;
        Ok(ss_out::<M>(ss, scan))
    }
}

// ---------------------------------------------------------------------------------------------
// Suite-level operations
// ---------------------------------------------------------------------------------------------

pub struct OpenOut {
    pub res: R<Vec<u8>>,
    /// in-place forms: the caller's buffer after the call
    pub buf: Option<Vec<u8>>,
}

pub struct SealOut {
    pub enc: Vec<u8>,
    pub ct: Vec<u8>,
    pub tag: Vec<u8>,
}

pub trait SuiteOps: Send + Sync {
    fn ids(&self) -> (u16, u16, u16);
    fn nt(&self) -> usize;
    fn setup_s(
        &self,
        m: &ModeArgs,
        pkr: &[u8],
        info: &[u8],
        rng: &mut ScriptRng,
    ) -> R<(Vec<u8>, Box<dyn CtxS>)>;
    fn setup_r(&self, m: &ModeArgs, skr: &[u8], enc: &[u8], info: &[u8]) -> R<Box<dyn CtxR>>;
    /// Deserializes the receiver's key material ONCE, then `threads` threads concurrently run
    /// setup_receiver + a 32-byte export through shared references to those key objects.
    /// Returns the per-thread results followed by one more result computed afterwards on one thread.
    fn setup_r_par(&self, m: &ModeArgs, skr: &[u8], enc: &[u8], info: &[u8], threads: usize) -> R<Vec<Result<Vec<u8>, HpkeError>>>;
    /// The receiver's private key and the encapsulated key are deserialized ONCE and the same objects are
    /// used for several setups in a row, each expecting a different sender key (Auth modes) or none.
    /// Result per setup: export(32) or the error.
    fn setup_r_reuse(&self, m: &ModeArgs, skr: &[u8], enc: &[u8], info: &[u8], pks_list: &[&[u8]]) -> R<Vec<Result<Vec<u8>, HpkeError>>>;
    /// Same for the sender: one shared recipient public key (and identity key pair), every thread with its
    /// own copy of the same scripted RNG bytes. Result per thread: enc || export(32)
    fn setup_s_par(&self, m: &ModeArgs, pkr: &[u8], info: &[u8], rng: &[u8], threads: usize) -> R<Vec<Result<Vec<u8>, HpkeError>>>;
    fn raw_s(&self, key: &[u8], bn: &[u8], es: &[u8]) -> Option<Box<dyn CtxS>>;
    fn raw_r(&self, key: &[u8], bn: &[u8], es: &[u8]) -> Option<Box<dyn CtxR>>;
    /// None: that API form is not compiled in. On failure of the in-place form the buffer is
    /// returned in the error position of the tuple.
    #[allow(clippy::too_many_arguments)]
    fn ss_seal(
        &self,
        m: &ModeArgs,
        pkr: &[u8],
        info: &[u8],
        pt: &[u8],
        aad: &[u8],
        rng: &mut ScriptRng,
        inplace: bool,
    ) -> Option<(R<SealOut>, Option<Vec<u8>>)>;
    #[allow(clippy::too_many_arguments)]
    fn ss_open(
        &self,
        m: &ModeArgs,
        skr: &[u8],
        enc: &[u8],
        info: &[u8],
        ct: &[u8],
        tag: Option<&[u8]>,
        aad: &[u8],
    ) -> Option<OpenOut>;
    fn tag_from_bytes(&self, b: &[u8]) -> R<(Vec<u8>, bool)>;
    fn tag_write_exact(&self, b: &[u8], buflen: usize) -> R<Vec<u8>>;
}

pub struct Sx<A: Aead, K: Kdf, M: Kem>(pub PhantomData<fn() -> (A, K, M)>);

impl<A: Aead + 'static, K: Kdf + 'static, M: Kem + 'static> SuiteOps for Sx<A, K, M>
where
    AeadCtxS<A, K, M>: Send + Sync,
    AeadCtxR<A, K, M>: Send + Sync,
    M::PublicKey: Send + Sync,
    M::PrivateKey: Send + Sync,
    M::EncappedKey: Send + Sync,
{
    fn ids(&self) -> (u16, u16, u16) {
        (M::KEM_ID, K::KDF_ID, A::AEAD_ID)
    }
    fn nt(&self) -> usize {
        AeadTag::<A>::size()
    }
    fn setup_s(
        &self,
        m: &ModeArgs,
        pkr: &[u8],
        info: &[u8],
        rng: &mut ScriptRng,
    ) -> R<(Vec<u8>, Box<dyn CtxS>)> {
        let mode = mode_s::<M>(m)?;
        let pkr = at(M::PublicKey::from_bytes(pkr), "pkr")?;
        let (enc, ctx) = at(placed(pkr, |pkr| hpke::setup_sender::<A, K, M, _>(&mode, pkr, info, rng)), "")?;
        Ok((enc.to_bytes().to_vec(), Box::new(ctx)))
    }
    fn setup_r(&self, m: &ModeArgs, skr: &[u8], enc: &[u8], info: &[u8]) -> R<Box<dyn CtxR>> {
        let mode = mode_r::<M>(m)?;
        let skr = at(M::PrivateKey::from_bytes(skr), "skr")?;
        let enc = at(M::EncappedKey::from_bytes(enc), "enc")?;
        let ctx = at(placed(enc, |enc| hpke::setup_receiver::<A, K, M>(&mode, &skr, enc, info)), "")?;
        Ok(Box::new(ctx))
    }
    fn setup_r_par(&self, m: &ModeArgs, skr: &[u8], enc: &[u8], info: &[u8], threads: usize) -> R<Vec<Result<Vec<u8>, HpkeError>>> {
        let mode = mode_r::<M>(m)?;
        let skr = at(M::PrivateKey::from_bytes(skr), "skr")?;
        let enc = at(M::EncappedKey::from_bytes(enc), "enc")?;
        let one = |mode: &OpModeR<M>, skr: &M::PrivateKey, enc: &M::EncappedKey| -> Result<Vec<u8>, HpkeError> {
            let ctx = hpke::setup_receiver::<A, K, M>(mode, skr, enc, info)?;
            let mut out = vec![0u8; 32];
            ctx.export(b"par", &mut out)?;
            Ok(out)
        };
        let barrier = std::sync::Barrier::new(threads);
        let mut res: Vec<Result<Vec<u8>, HpkeError>> = std::thread::scope(|s| {
            let hs: Vec<_> = (0..threads)
                .map(|_| {
                    s.spawn(|| {
                        barrier.wait();
                        one(&mode, &skr, &enc)
                    })
                })
                .collect();
            hs.into_iter().map(|h| h.join().expect("setup thread panicked")).collect()
        });
        res.push(one(&mode, &skr, &enc));
        Ok(res)
    }
    fn setup_r_reuse(&self, m: &ModeArgs, skr: &[u8], enc: &[u8], info: &[u8], pks_list: &[&[u8]]) -> R<Vec<Result<Vec<u8>, HpkeError>>> {
        let skr = at(M::PrivateKey::from_bytes(skr), "skr")?;
        let enc = at(M::EncappedKey::from_bytes(enc), "enc")?;
        let mut out = Vec::new();
        for pks in pks_list {
            let mut mm = m.clone();
            mm.pks = pks.to_vec();
            let mode = mode_r::<M>(&mm)?;
            let r = (|| -> Result<Vec<u8>, HpkeError> {
                let ctx = hpke::setup_receiver::<A, K, M>(&mode, &skr, &enc, info)?;
                let mut o = vec![0u8; 32];
                ctx.export(b"reuse", &mut o)?;
                Ok(o)
            })();
            out.push(r);
        }
        Ok(out)
    }
    fn setup_s_par(&self, m: &ModeArgs, pkr: &[u8], info: &[u8], rng: &[u8], threads: usize) -> R<Vec<Result<Vec<u8>, HpkeError>>> {
        let mode = mode_s::<M>(m)?;
        let pkr = at(M::PublicKey::from_bytes(pkr), "pkr")?;
        let one = |mode: &OpModeS<M>, pkr: &M::PublicKey| -> Result<Vec<u8>, HpkeError> {
            let mut r = ScriptRng::new(rng.to_vec());
            let (enc, ctx) = hpke::setup_sender::<A, K, M, _>(mode, pkr, info, &mut r)?;
            let mut out = vec![0u8; 32];
            ctx.export(b"par", &mut out)?;
            let mut v = enc.to_bytes().to_vec();
            v.extend_from_slice(&out);
            Ok(v)
        };
        let barrier = std::sync::Barrier::new(threads);
        let mut res: Vec<Result<Vec<u8>, HpkeError>> = std::thread::scope(|s| {
            let hs: Vec<_> = (0..threads)
                .map(|_| {
                    s.spawn(|| {
                        barrier.wait();
                        one(&mode, &pkr)
                    })
                })
                .collect();
            hs.into_iter().map(|h| h.join().expect("setup thread panicked")).collect()
        });
        res.push(one(&mode, &pkr));
        Ok(res)
    }
    #[allow(unused_variables)]
    fn raw_s(&self, key: &[u8], bn: &[u8], es: &[u8]) -> Option<Box<dyn CtxS>> {
        #[cfg(hpke_verif)]
        {
            AeadCtxS::<A, K, M>::verif_from_raw(key, bn, es).map(|c| Box::new(c) as Box<dyn CtxS>)
        }
        #[cfg(not(hpke_verif))]
        {
            None
        }
    }
    #[allow(unused_variables)]
    fn raw_r(&self, key: &[u8], bn: &[u8], es: &[u8]) -> Option<Box<dyn CtxR>> {
        #[cfg(hpke_verif)]
        {
            AeadCtxR::<A, K, M>::verif_from_raw(key, bn, es).map(|c| Box::new(c) as Box<dyn CtxR>)
        }
        #[cfg(not(hpke_verif))]
        {
            None
        }
    }
    fn ss_seal(
        &self,
        m: &ModeArgs,
        pkr: &[u8],
        info: &[u8],
        pt: &[u8],
        aad: &[u8],
        rng: &mut ScriptRng,
        inplace: bool,
    ) -> Option<(R<SealOut>, Option<Vec<u8>>)> {
        let mode = match mode_s::<M>(m) {
            Ok(x) => x,
            Err(e) => return Some((Err(e), None)),
        };
        let pkr = match at(M::PublicKey::from_bytes(pkr), "pkr") {
            Ok(x) => x,
            Err(e) => return Some((Err(e), None)),
        };
        if inplace {
            let mut buf = pt.to_vec();
            let r = hpke::single_shot_seal_in_place_detached::<A, K, M, _>(
                &mode, &pkr, info, &mut buf, aad, rng,
            );
            match r {
                Ok((enc, tag)) => Some((
                    Ok(SealOut {
                        enc: enc.to_bytes().to_vec(),
                        ct: buf,
                        tag: tag.to_bytes().to_vec(),
                    }),
                    None,
                )),
                Err(e) => Some((Err((e, "")), Some(buf))),
            }
        } else {
            #[cfg(any(feature = "alloc", feature = "std"))]
            {
                let r = hpke::single_shot_seal::<A, K, M, _>(&mode, &pkr, info, pt, aad, rng);
                match r {
                    Ok((enc, full)) => {
                        let nt = AeadTag::<A>::size().min(full.len());
                        let k = full.len() - nt;
                        Some((
                            Ok(SealOut {
                                enc: enc.to_bytes().to_vec(),
                                ct: full[..k].to_vec(),
                                tag: full[k..].to_vec(),
                            }),
                            None,
                        ))
                    }
                    Err(e) => Some((Err((e, "")), None)),
                }
            }
            #[cfg(not(any(feature = "alloc", feature = "std")))]
            {
                None
            }
        }
    }
    fn ss_open(
        &self,
        m: &ModeArgs,
        skr: &[u8],
        enc: &[u8],
        info: &[u8],
        ct: &[u8],
        tag: Option<&[u8]>,
        aad: &[u8],
    ) -> Option<OpenOut> {
        let pre = (|| -> R<_> {
            let mode = mode_r::<M>(m)?;
            let skr = at(M::PrivateKey::from_bytes(skr), "skr")?;
            let enc = at(M::EncappedKey::from_bytes(enc), "enc")?;
            Ok((mode, skr, enc))
        })();
        let (mode, skr, enc) = match pre {
            Ok(x) => x,
            Err(e) => return Some(OpenOut { res: Err(e), buf: None }),
        };
        match tag {
            Some(tag) => {
                let tag = match at(AeadTag::<A>::from_bytes(tag), "tag") {
                    Ok(t) => t,
                    Err(e) => return Some(OpenOut { res: Err(e), buf: None }),
                };
                let mut buf = ct.to_vec();
                let r = hpke::single_shot_open_in_place_detached::<A, K, M>(
                    &mode, &skr, &enc, info, &mut buf, aad, &tag,
                );
                match r {
                    Ok(()) => Some(OpenOut { res: Ok(buf.clone()), buf: Some(buf) }),
                    Err(e) => Some(OpenOut { res: Err((e, "")), buf: Some(buf) }),
                }
            }
            None => {
                #[cfg(any(feature = "alloc", feature = "std"))]
                {
                    let r = hpke::single_shot_open::<A, K, M>(&mode, &skr, &enc, info, ct, aad);
                    Some(OpenOut { res: at(r, ""), buf: None })
                }
                #[cfg(not(any(feature = "alloc", feature = "std")))]
                {
                    None
                }
            }
        }
    }
    fn tag_from_bytes(&self, b: &[u8]) -> R<(Vec<u8>, bool)> {
        let t = at(AeadTag::<A>::from_bytes(b), "")?;
        let re = t.to_bytes().to_vec();
        let eq = AeadTag::<A>::from_bytes(&re)
            .map(|w| w.to_bytes().to_vec() == re)
            .unwrap_or(false);
        Ok((re, eq))
    }
    fn tag_write_exact(&self, b: &[u8], buflen: usize) -> R<Vec<u8>> {
        let t = at(AeadTag::<A>::from_bytes(b), "bytes")?;
        let mut buf = vec![0x5Au8; buflen];
        t.write_exact(&mut buf);
        Ok(buf)
    }
}

// ---------------------------------------------------------------------------------------------
// Tables
// ---------------------------------------------------------------------------------------------

use hpke::aead::{AesGcm128, AesGcm256, ChaCha20Poly1305, ExportOnlyAead};
use hpke::kdf::{HkdfSha256, HkdfSha384, HkdfSha512};

pub fn kem_ops(kem: u16) -> Option<Box<dyn KemOps>> {
    match kem {
        #[cfg(feature = "x25519")]
        0x0020 => Some(Box::new(Kx::<hpke::kem::X25519HkdfSha256>(PhantomData))),
        #[cfg(feature = "p256")]
        0x0010 => Some(Box::new(Kx::<hpke::kem::DhP256HkdfSha256>(PhantomData))),
        #[cfg(feature = "p384")]
        0x0011 => Some(Box::new(Kx::<hpke::kem::DhP384HkdfSha384>(PhantomData))),
        #[cfg(feature = "p521")]
        0x0012 => Some(Box::new(Kx::<hpke::kem::DhP521HkdfSha512>(PhantomData))),
        0x7e57 => Some(Box::new(Kx::<crate::mockkem::ToyKem>(PhantomData))),
        _ => None,
    }
}

// Every suite is instantiated with concrete types, so that no auto-trait has to be provable for a
// generic parameter (the crate promises Send + Sync for its concrete contexts, not for `K: Kdf`).
macro_rules! suite_row {
    ($kemty:ty, $kdf:expr, $aead:expr) => {
        match ($kdf, $aead) {
            (1, 1) => Some(Box::new(Sx::<AesGcm128, HkdfSha256, $kemty>(PhantomData)) as Box<dyn SuiteOps>),
            (2, 1) => Some(Box::new(Sx::<AesGcm128, HkdfSha384, $kemty>(PhantomData)) as Box<dyn SuiteOps>),
            (3, 1) => Some(Box::new(Sx::<AesGcm128, HkdfSha512, $kemty>(PhantomData)) as Box<dyn SuiteOps>),
            (1, 2) => Some(Box::new(Sx::<AesGcm256, HkdfSha256, $kemty>(PhantomData)) as Box<dyn SuiteOps>),
            (2, 2) => Some(Box::new(Sx::<AesGcm256, HkdfSha384, $kemty>(PhantomData)) as Box<dyn SuiteOps>),
            (3, 2) => Some(Box::new(Sx::<AesGcm256, HkdfSha512, $kemty>(PhantomData)) as Box<dyn SuiteOps>),
            (1, 3) => Some(Box::new(Sx::<ChaCha20Poly1305, HkdfSha256, $kemty>(PhantomData)) as Box<dyn SuiteOps>),
            (2, 3) => Some(Box::new(Sx::<ChaCha20Poly1305, HkdfSha384, $kemty>(PhantomData)) as Box<dyn SuiteOps>),
            (3, 3) => Some(Box::new(Sx::<ChaCha20Poly1305, HkdfSha512, $kemty>(PhantomData)) as Box<dyn SuiteOps>),
            (1, 0xFFFF) => Some(Box::new(Sx::<ExportOnlyAead, HkdfSha256, $kemty>(PhantomData)) as Box<dyn SuiteOps>),
            (2, 0xFFFF) => Some(Box::new(Sx::<ExportOnlyAead, HkdfSha384, $kemty>(PhantomData)) as Box<dyn SuiteOps>),
            (3, 0xFFFF) => Some(Box::new(Sx::<ExportOnlyAead, HkdfSha512, $kemty>(PhantomData)) as Box<dyn SuiteOps>),
            (1, 0x7777) => Some(Box::new(Sx::<crate::probe::ProbeAead, HkdfSha256, $kemty>(PhantomData)) as Box<dyn SuiteOps>),
            (3, 0x7777) => Some(Box::new(Sx::<crate::probe::ProbeAead, HkdfSha512, $kemty>(PhantomData)) as Box<dyn SuiteOps>),
            (1, 0x7778) => Some(Box::new(Sx::<crate::probe::ProbeAead24, HkdfSha256, $kemty>(PhantomData)) as Box<dyn SuiteOps>),
            (3, 0x7778) => Some(Box::new(Sx::<crate::probe::ProbeAead24, HkdfSha512, $kemty>(PhantomData)) as Box<dyn SuiteOps>),
            (1, 0x7779) => Some(Box::new(Sx::<crate::probe::ProbeAead8, HkdfSha256, $kemty>(PhantomData)) as Box<dyn SuiteOps>),
            (3, 0x7779) => Some(Box::new(Sx::<crate::probe::ProbeAead8, HkdfSha512, $kemty>(PhantomData)) as Box<dyn SuiteOps>),
            (1, 0x777A) => Some(Box::new(Sx::<crate::probe::ProbeAead13, HkdfSha256, $kemty>(PhantomData)) as Box<dyn SuiteOps>),
            (3, 0x777A) => Some(Box::new(Sx::<crate::probe::ProbeAead13, HkdfSha512, $kemty>(PhantomData)) as Box<dyn SuiteOps>),
            (1, 0x777B) => Some(Box::new(Sx::<crate::probe::ProbeAeadK64, HkdfSha256, $kemty>(PhantomData)) as Box<dyn SuiteOps>),
            (3, 0x777B) => Some(Box::new(Sx::<crate::probe::ProbeAeadK64, HkdfSha512, $kemty>(PhantomData)) as Box<dyn SuiteOps>),
            (1, 0x777C) => Some(Box::new(Sx::<crate::probe::ProbeAeadSiv, HkdfSha256, $kemty>(PhantomData)) as Box<dyn SuiteOps>),
            (3, 0x777C) => Some(Box::new(Sx::<crate::probe::ProbeAeadSiv, HkdfSha512, $kemty>(PhantomData)) as Box<dyn SuiteOps>),
            _ => None,
        }
    };
}

pub fn suite_ops(kem: u16, kdf: u16, aead: u16) -> Option<Box<dyn SuiteOps>> {
    match kem {
        #[cfg(feature = "x25519")]
        0x0020 => suite_row!(hpke::kem::X25519HkdfSha256, kdf, aead),
        #[cfg(feature = "p256")]
        0x0010 => suite_row!(hpke::kem::DhP256HkdfSha256, kdf, aead),
        #[cfg(feature = "p384")]
        0x0011 => suite_row!(hpke::kem::DhP384HkdfSha384, kdf, aead),
        #[cfg(feature = "p521")]
        0x0012 => suite_row!(hpke::kem::DhP521HkdfSha512, kdf, aead),
        0x7e57 => suite_row!(crate::mockkem::ToyKem, kdf, aead),
        _ => None,
    }
}
