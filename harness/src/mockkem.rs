//! A mock KEM plugged into the crate through its public `Kem` trait (like the mock AEADs of probe.rs and the steerable
//! hash of toy.rs: the third extension point). Every size is 96 bytes - larger than any built-in KEM's Nsecret (64) or
//! Nsk (66) - so that the generic code around the KEM (key schedule input, the default `gen_keypair`, serialization
//! plumbing) runs with sizes the four DHKEMs never produce. It is not a KEM in any cryptographic sense:
//! pk = sk ^ 5a.., DeriveKeyPair folds the ikm into 96 bytes, Encap draws enc and returns enc ^ pkR, Decap returns
//! enc ^ pk(skR). `ref/hpke_ref.py: ToyKem` is the same thing in Python. `gen_keypair` is deliberately NOT overridden.

use hpke::{
    generic_array::{typenum::U96, GenericArray},
    kem::SharedSecret,
    rand_core::{CryptoRng, RngCore},
    Deserializable, HpkeError, Kem, Serializable,
};

pub const N: usize = 96;

#[derive(Clone, Debug, PartialEq, Eq)]
pub struct Blob(pub [u8; N]);

impl Serializable for Blob {
    type OutputSize = U96;
    fn write_exact(&self, buf: &mut [u8]) {
        assert_eq!(buf.len(), N, "mock KEM: write_exact into a buffer of the wrong size");
        buf.copy_from_slice(&self.0);
    }
}
impl Deserializable for Blob {
    fn from_bytes(b: &[u8]) -> Result<Self, HpkeError> {
        if b.len() != N {
            return Err(HpkeError::IncorrectInputLength(N, b.len()));
        }
        let mut a = [0u8; N];
        a.copy_from_slice(b);
        Ok(Blob(a))
    }
}

pub struct ToyKem;

impl Kem for ToyKem {
    type PublicKey = Blob;
    type PrivateKey = Blob;
    type EncappedKey = Blob;
    type NSecret = U96;
    const KEM_ID: u16 = 0x7e57;

    fn sk_to_pk(sk: &Blob) -> Blob {
        let mut p = sk.0;
        p.iter_mut().for_each(|b| *b ^= 0x5a);
        Blob(p)
    }
    fn derive_keypair(ikm: &[u8]) -> (Blob, Blob) {
        let mut s = [0x11u8; N];
        for (i, b) in ikm.iter().enumerate() {
            s[i % N] ^= b.rotate_left((i / N) as u32 % 8);
        }
        let sk = Blob(s);
        let pk = Self::sk_to_pk(&sk);
        (sk, pk)
    }
    fn decap(sk: &Blob, _pk_s: Option<&Blob>, enc: &Blob) -> Result<SharedSecret<Self>, HpkeError> {
        let pk = Self::sk_to_pk(sk);
        let mut ss = SharedSecret::<Self>(GenericArray::default());
        for i in 0..N {
            ss.0[i] = enc.0[i] ^ pk.0[i];
        }
        Ok(ss)
    }
    fn encap<R: CryptoRng + RngCore>(pk_r: &Blob, _id: Option<(&Blob, &Blob)>, rng: &mut R) -> Result<(SharedSecret<Self>, Blob), HpkeError> {
        let mut e = [0u8; N];
        rng.fill_bytes(&mut e);
        let mut ss = SharedSecret::<Self>(GenericArray::default());
        for i in 0..N {
            ss.0[i] = e[i] ^ pk_r.0[i];
        }
        Ok((ss, Blob(e)))
    }
}
