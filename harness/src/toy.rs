//! A steerable "hash function" plugged into the crate's generic DeriveKeyPair through the `hpke_verif` hook
//! `verif_derive_keypair_with`. With a real hash the candidate-retry loop of the NIST curves runs a second time
//! with probability 2^-32 (P-256) and < 2^-190 (P-384, P-521); with this one the test chooses every candidate.
//!
//! H(x) = row number x[len-2] of a 256 x 64 byte table chosen per call (row 0 if x is shorter than 2 bytes).
//! Block size 128, output size 64. It is a function of its input, which is all HMAC/HKDF need.

use sha2::digest::{
    core_api::BlockSizeUser,
    generic_array::typenum::{U128, U64},
    FixedOutput, HashMarker, Output, OutputSizeUser, Update,
};
use std::cell::RefCell;

thread_local! {
    pub static TABLE: RefCell<Vec<u8>> = const { RefCell::new(Vec::new()) };
}

#[derive(Clone, Default)]
pub struct ToyHash {
    last_two: [u8; 2],
}
impl HashMarker for ToyHash {}
impl OutputSizeUser for ToyHash {
    type OutputSize = U64;
}
impl BlockSizeUser for ToyHash {
    type BlockSize = U128;
}
impl Update for ToyHash {
    fn update(&mut self, data: &[u8]) {
        for b in data {
            self.last_two = [self.last_two[1], *b];
        }
    }
}
impl FixedOutput for ToyHash {
    fn finalize_into(self, out: &mut Output<Self>) {
        let row = self.last_two[0] as usize;
        TABLE.with(|t| {
            let t = t.borrow();
            for (i, o) in out.iter_mut().enumerate() {
                *o = t.get(row * 64 + i).copied().unwrap_or(0);
            }
        });
    }
}

pub struct ToyKdf;
impl hpke::kdf::Kdf for ToyKdf {
    type HashImpl = ToyHash;
    const KDF_ID: u16 = 0x7777;
}

/// (sk, pk, sk_to_pk(sk)) of DeriveKeyPair under the toy KDF; None if the KEM or the hook is not compiled in
#[allow(unused_variables)]
pub fn derive(kem_id: u16, ikm: &[u8], table: &[u8]) -> Option<(Vec<u8>, Vec<u8>, Vec<u8>)> {
    #[cfg(hpke_verif)]
    {
        use hpke::{Kem, Serializable};
        TABLE.with(|t| *t.borrow_mut() = table.to_vec());
        macro_rules! go {
            ($k:ty) => {{
                let (sk, pk) = <$k>::verif_derive_keypair_with::<ToyKdf>(ikm);
                let pk2 = <$k as Kem>::sk_to_pk(&sk);
                return Some((sk.to_bytes().to_vec(), pk.to_bytes().to_vec(), pk2.to_bytes().to_vec()));
            }};
        }
        match kem_id {
            #[cfg(feature = "x25519")]
            0x0020 => go!(hpke::kem::X25519HkdfSha256),
            #[cfg(feature = "p256")]
            0x0010 => go!(hpke::kem::DhP256HkdfSha256),
            #[cfg(feature = "p384")]
            0x0011 => go!(hpke::kem::DhP384HkdfSha384),
            #[cfg(feature = "p521")]
            0x0012 => go!(hpke::kem::DhP521HkdfSha512),
            _ => {}
        }
    }
    None
}
