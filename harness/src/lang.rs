//! The case/event language: byte-string encodings, transforms, line parsing, fingerprints.

use sha2::{Digest, Sha256};
use std::collections::HashMap;

pub fn hex(b: &[u8]) -> String {
    if b.is_empty() {
        return "-".to_string();
    }
    const T: &[u8; 16] = b"0123456789abcdef";
    let mut s = String::with_capacity(b.len() * 2);
    for x in b {
        s.push(T[(x >> 4) as usize] as char);
        s.push(T[(x & 15) as usize] as char);
    }
    s
}

/// Output encoding: hex up to 300000 bytes, else `#<sha256>:<len>`
pub fn out(b: &[u8]) -> String {
    if b.len() <= 300000 {
        hex(b)
    } else {
        let d = Sha256::digest(b);
        format!("#{}:{}", hex(&d), b.len())
    }
}

pub fn unhex(s: &str) -> Result<Vec<u8>, String> {
    if s == "-" {
        return Ok(Vec::new());
    }
    if s.len() % 2 != 0 {
        return Err(format!("odd hex length in {:?}", &s[..s.len().min(32)]));
    }
    let v = |c: u8| -> Result<u8, String> {
        match c {
            b'0'..=b'9' => Ok(c - b'0'),
            b'a'..=b'f' => Ok(c - b'a' + 10),
            b'A'..=b'F' => Ok(c - b'A' + 10),
            _ => Err(format!("bad hex char {:?}", c as char)),
        }
    };
    let b = s.as_bytes();
    let mut o = Vec::with_capacity(b.len() / 2);
    for i in (0..b.len()).step_by(2) {
        o.push(v(b[i])? << 4 | v(b[i + 1])?);
    }
    Ok(o)
}

pub struct SplitMix(pub u64);
impl SplitMix {
    pub fn next(&mut self) -> u64 {
        self.0 = self.0.wrapping_add(0x9E3779B97F4A7C15);
        let mut z = self.0;
        z = (z ^ (z >> 30)).wrapping_mul(0xBF58476D1CE4E5B9);
        z = (z ^ (z >> 27)).wrapping_mul(0x94D049BB133111EB);
        z ^ (z >> 31)
    }
}

pub fn prand(seed: u64, len: usize) -> Vec<u8> {
    let mut g = SplitMix(seed);
    let mut o = Vec::with_capacity(len + 8);
    while o.len() < len {
        o.extend_from_slice(&g.next().to_le_bytes());
    }
    o.truncate(len);
    o
}

pub fn crc32_update(mut crc: u32, data: &[u8]) -> u32 {
    // bitwise-table CRC-32 (IEEE), same as zlib.crc32
    static TABLE: std::sync::OnceLock<[u32; 256]> = std::sync::OnceLock::new();
    let t = TABLE.get_or_init(|| {
        let mut t = [0u32; 256];
        for i in 0..256u32 {
            let mut c = i;
            for _ in 0..8 {
                c = if c & 1 != 0 { 0xEDB88320 ^ (c >> 1) } else { c >> 1 };
            }
            t[i as usize] = c;
        }
        t
    });
    crc = !crc;
    for b in data {
        crc = t[((crc ^ *b as u32) & 0xff) as usize] ^ (crc >> 8);
    }
    !crc
}

/// Registers: `name.field` -> bytes
pub type Regs = HashMap<String, Vec<u8>>;

/// Decodes a byte-string argument: `-`, hex, `@r:<seed>:<len>`, `@z:<bytehex>:<len>`,
/// `$reg.field`, any of them followed by `^transform` chains:
/// `flip:<bit>` `trunc:<n>` `tail:<n>` `skip:<n>` `app:<hex>` `pre:<hex>` `set:<i>:<bytehex>`
pub fn decode_bytes(arg: &str, regs: &Regs) -> Result<Vec<u8>, String> {
    let mut parts = arg.split('^');
    let base = parts.next().unwrap();
    let mut v: Vec<u8> = if let Some(name) = base.strip_prefix('$') {
        regs.get(name)
            .cloned()
            .ok_or_else(|| format!("unknown register {}", name))?
    } else if let Some(rest) = base.strip_prefix("@r:") {
        let mut it = rest.split(':');
        let seed: u64 = it.next().ok_or("seed")?.parse().map_err(|e| format!("{e}"))?;
        let len: usize = it.next().ok_or("len")?.parse().map_err(|e| format!("{e}"))?;
        prand(seed, len)
    } else if let Some(rest) = base.strip_prefix("@z:") {
        let mut it = rest.split(':');
        let b = unhex(it.next().ok_or("byte")?)?;
        let len: usize = it.next().ok_or("len")?.parse().map_err(|e| format!("{e}"))?;
        vec![*b.first().ok_or("byte")?; len]
    } else {
        unhex(base)?
    };
    for t in parts {
        let mut it = t.split(':');
        let op = it.next().unwrap();
        let mut num = || -> Result<usize, String> {
            it.next()
                .ok_or_else(|| "missing transform operand".to_string())?
                .parse::<usize>()
                .map_err(|e| format!("{e}"))
        };
        match op {
            "flip" => {
                let bit = num()?;
                if bit / 8 >= v.len() {
                    return Err(format!("flip bit {} out of range {}", bit, v.len()));
                }
                v[bit / 8] ^= 1 << (bit % 8);
            }
            "trunc" => {
                let n = num()?;
                v.truncate(n);
            }
            "tail" => {
                let n = num()?;
                let k = v.len().saturating_sub(n);
                v = v[k..].to_vec();
            }
            "skip" => {
                let n = num()?.min(v.len());
                v = v[n..].to_vec();
            }
            "app" => {
                let h = t.splitn(2, ':').nth(1).ok_or("app operand")?;
                v.extend_from_slice(&unhex(h)?);
            }
            "pre" => {
                let h = t.splitn(2, ':').nth(1).ok_or("pre operand")?;
                let mut n = unhex(h)?;
                n.extend_from_slice(&v);
                v = n;
            }
            "set" => {
                let i = num()?;
                let bb = t.splitn(3, ':').nth(2).ok_or("set operand")?;
                let b = unhex(bb)?;
                if i >= v.len() || b.len() != 1 {
                    return Err("set out of range".into());
                }
                v[i] = b[0];
            }
            "rotl" | "rotr" => {
                let n = num()?;
                if !v.is_empty() {
                    let k = n % v.len();
                    if op == "rotl" {
                        v.rotate_left(k);
                    } else {
                        v.rotate_right(k);
                    }
                }
            }
            "rev" => v.reverse(),
            "catreg" | "prereg" => {
                let name = t.splitn(2, ':').nth(1).ok_or("register operand")?;
                let other = regs.get(name).cloned().ok_or_else(|| format!("unknown register {}", name))?;
                if op == "catreg" {
                    v.extend_from_slice(&other);
                } else {
                    let mut n = other;
                    n.extend_from_slice(&v);
                    v = n;
                }
            }
            _ => return Err(format!("unknown transform {}", op)),
        }
    }
    Ok(v)
}

/// A parsed `C` line
pub struct Call {
    pub id: String,
    pub op: String,
    pub args: Vec<(String, String)>,
    pub raw: String,
}

impl Call {
    pub fn parse(line: &str) -> Result<Call, String> {
        let mut it = line.split_whitespace();
        let tag = it.next().ok_or("empty")?;
        if tag != "C" {
            return Err(format!("not a call line: {}", tag));
        }
        let id = it.next().ok_or("id")?.to_string();
        let op = it.next().ok_or("op")?.to_string();
        let mut args = Vec::new();
        for kv in it {
            let (k, v) = kv.split_once('=').ok_or_else(|| format!("bad arg {}", kv))?;
            args.push((k.to_string(), v.to_string()));
        }
        Ok(Call { id, op, args, raw: line.to_string() })
    }
    pub fn get(&self, k: &str) -> Option<&str> {
        self.args.iter().find(|(a, _)| a == k).map(|(_, v)| v.as_str())
    }
    pub fn has(&self, k: &str) -> bool {
        self.get(k).is_some()
    }
}
