"""An executable RFC 9180, written from the RFC text.  No code shared with the crate.

Identifiers:  kem 0x0010 P-256/SHA256, 0x0011 P-384/SHA384, 0x0012 P-521/SHA512, 0x0020 X25519/SHA256
              kdf 1/2/3 = HKDF-SHA256/384/512;  aead 1/2/3/0xffff
Modes: 0 base, 1 psk, 2 auth, 3 auth_psk
"""
from . import aead as _aead
from . import curves as _c
from . import hkdf as _h

MODE_BASE, MODE_PSK, MODE_AUTH, MODE_AUTH_PSK = 0, 1, 2, 3


class RefError(Exception):
    """An error the RFC raises; .kind is one of EncapError DecapError OpenError
    MessageLimitReached KdfOutputTooLong ValidationError IncorrectInputLength DeriveKeyPairError"""

    def __init__(self, kind, *payload):
        Exception.__init__(self, kind, *payload)
        self.kind = kind
        self.payload = payload


class Kem:
    def __init__(self, kem_id, kdf_id, curve, npk, nsk, nsecret, bitmask):
        self.kem_id = kem_id
        self.kdf_id = kdf_id
        self.curve = curve  # None for X25519
        self.npk = npk
        self.nenc = npk
        self.nsk = nsk
        self.nsecret = nsecret
        self.bitmask = bitmask
        self.suite_id = b"KEM" + _h.i2osp(kem_id, 2)

    # -- (de)serialization -------------------------------------------------
    def deserialize_public(self, data):
        """Returns an opaque public key object or raises RefError."""
        if self.curve is None:
            if len(data) != 32:
                raise RefError("IncorrectInputLength", 32, len(data))
            return bytes(data)
        r = self.curve.decode_public(data)
        if r[0] == "len":
            raise RefError("IncorrectInputLength", r[1], r[2])
        if r[0] == "invalid":
            raise RefError("ValidationError", r[1])
        return r[1]

    def serialize_public(self, pk):
        if self.curve is None:
            return bytes(pk)
        return self.curve.encode_public(pk)

    def deserialize_private(self, data):
        if self.curve is None:
            if len(data) != 32:
                raise RefError("IncorrectInputLength", 32, len(data))
            return bytes(data)
        r = self.curve.decode_private(data)
        if r[0] == "len":
            raise RefError("IncorrectInputLength", r[1], r[2])
        if r[0] == "invalid":
            raise RefError("ValidationError", r[1])
        return r[1]

    def serialize_private(self, sk):
        if self.curve is None:
            return bytes(sk)
        return self.curve.encode_private(sk)

    def pk(self, sk):
        if self.curve is None:
            return _c.x25519_base(sk)
        return self.curve.mul_base(sk)

    def dh(self, sk, pk):
        """Raises RefError('DhZero') when the X25519 output is all-zero (RFC 9180 7.1.4)."""
        if self.curve is None:
            out = _c.x25519(sk, pk)
            if out == b"\x00" * 32:
                raise RefError("DhZero")
            return out
        return self.curve.dh(sk, pk)

    # -- RFC 9180 7.1.3 ------------------------------------------------------
    def derive_key_pair(self, ikm, want_counter=False):
        dkp_prk = _h.labeled_extract(self.kdf_id, b"", self.suite_id, b"dkp_prk", ikm)
        if self.curve is None:
            sk = _h.labeled_expand(self.kdf_id, dkp_prk, self.suite_id, b"sk", b"", self.nsk)
            res = (sk, self.pk(sk))
            return res + (0,) if want_counter else res
        sk = 0
        counter = 0
        while sk == 0 or sk >= self.curve.n:
            if counter > 255:
                raise RefError("DeriveKeyPairError")
            b = bytearray(
                _h.labeled_expand(
                    self.kdf_id, dkp_prk, self.suite_id, b"candidate", _h.i2osp(counter, 1), self.nsk
                )
            )
            b[0] &= self.bitmask
            sk = int.from_bytes(b, "big")
            counter += 1
        res = (sk, self.pk(sk))
        return res + (counter - 1,) if want_counter else res

    # -- RFC 9180 4.1 ---------------------------------------------------------
    def extract_and_expand(self, dh, kem_context):
        eae_prk = _h.labeled_extract(self.kdf_id, b"", self.suite_id, b"eae_prk", dh)
        return _h.labeled_expand(
            self.kdf_id, eae_prk, self.suite_id, b"shared_secret", kem_context, self.nsecret
        )

    def encap_with_eph(self, pkR, skE, skS=None, pkS_claimed=None):
        """Encap / AuthEncap with a given ephemeral private key.  `pkS_claimed` lets a caller
        model the crate's API, where the sender passes (skS, pkS) as a pair and pkS enters
        kem_context as given (RFC: pk(skS))."""
        pkE = self.pk(skE)
        try:
            dh = self.dh(skE, pkR)
            enc = self.serialize_public(pkE)
            kem_context = enc + self.serialize_public(pkR)
            if skS is not None:
                dh = dh + self.dh(skS, pkR)
                pkS = self.pk(skS) if pkS_claimed is None else pkS_claimed
                kem_context += self.serialize_public(pkS)
        except RefError as e:
            if e.kind == "DhZero":
                raise RefError("EncapError")
            raise
        return self.extract_and_expand(dh, kem_context), enc

    def encap(self, pkR, ikmE, skS=None, pkS_claimed=None):
        """Encap where the ephemeral key is DeriveKeyPair(ikmE) (ikmE = the Nsk RNG bytes)."""
        skE, _ = self.derive_key_pair(ikmE)
        return self.encap_with_eph(pkR, skE, skS, pkS_claimed)

    def decap(self, enc, skR, pkS=None):
        pkE = self.deserialize_public(enc)
        try:
            dh = self.dh(skR, pkE)
            kem_context = enc + self.serialize_public(self.pk(skR))
            if pkS is not None:
                dh = dh + self.dh(skR, pkS)
                kem_context += self.serialize_public(pkS)
        except RefError as e:
            if e.kind == "DhZero":
                raise RefError("DecapError")
            raise
        return self.extract_and_expand(dh, kem_context)


KEMS = {
    0x0010: Kem(0x0010, 1, _c.P256, 65, 32, 32, 0xFF),
    0x0011: Kem(0x0011, 2, _c.P384, 97, 48, 48, 0xFF),
    0x0012: Kem(0x0012, 3, _c.P521, 133, 66, 64, 0x01),
    0x0020: Kem(0x0020, 1, None, 32, 32, 32, 0xFF),
}


class ToyKem(Kem):
    """The mock KEM of harness/src/mockkem.rs (plugged into the crate through its public `Kem` trait): every size is 96
    bytes, i.e. larger than any built-in KEM's (Nsecret 64, Nsk 66).  pk = sk ^ 5a..; DeriveKeyPair folds the ikm into
    96 bytes; Encap draws enc (96 bytes) and returns enc ^ pkR; Decap returns enc ^ pk(skR).  Not a KEM in any
    cryptographic sense: it exists so that the generic code around the KEM runs with other sizes."""
    N = 96

    def __init__(self):
        Kem.__init__(self, 0x7E57, 1, None, self.N, self.N, self.N, 0xFF)

    def _blob(self, data):
        if len(data) != self.N:
            raise RefError("IncorrectInputLength", self.N, len(data))
        return bytes(data)

    deserialize_public = _blob
    deserialize_private = _blob

    def pk(self, sk):
        return bytes(b ^ 0x5A for b in sk)

    def derive_key_pair(self, ikm, want_counter=False):
        s = bytearray([0x11] * self.N)
        for i, b in enumerate(ikm):
            r = (i // self.N) % 8
            s[i % self.N] ^= ((b << r) | (b >> (8 - r))) & 0xFF
        sk = bytes(s)
        res = (sk, self.pk(sk))
        return res + (0,) if want_counter else res

    def encap(self, pkR, ikmE, skS=None, pkS_claimed=None):
        e = bytes(ikmE[: self.N])
        return bytes(a ^ b for a, b in zip(e, pkR)), e

    def decap(self, enc, skR, pkS=None):
        enc = self._blob(enc)
        return bytes(a ^ b for a, b in zip(enc, self.pk(skR)))


KEMS[0x7E57] = ToyKem()
KDFS = (1, 2, 3)
AEADS = (1, 2, 3, 0xFFFF)
KEM_NAMES = {0x0010: "p256", 0x0011: "p384", 0x0012: "p521", 0x0020: "x25519"}


class Context:
    """RFC 9180 5.2 / 5.3 context (either role)."""

    def __init__(self, suite, key, base_nonce, exporter_secret):
        self.suite = suite
        self.key = key
        self.base_nonce = base_nonce
        self.exporter_secret = exporter_secret
        self.seq = 0
        self.dead = False  # crate semantics: seq 2^64-1 is usable, then the context is dead

    def compute_nonce(self, seq):
        nn = len(self.base_nonce)
        s = _h.i2osp(seq, nn)
        return bytes(a ^ b for a, b in zip(self.base_nonce, s))

    def _inc(self):
        if self.seq >= (1 << 64) - 1:
            self.dead = True
        else:
            self.seq += 1

    def seal(self, aad, pt):
        if self.dead:
            raise RefError("MessageLimitReached")
        ct = _aead.seal(self.suite.aead_id, self.key, self.compute_nonce(self.seq), aad, pt)
        self._inc()
        return ct

    def open(self, aad, ct):
        if self.dead:
            raise RefError("MessageLimitReached")
        pt = _aead.open_(self.suite.aead_id, self.key, self.compute_nonce(self.seq), aad, ct)
        if pt is None:
            raise RefError("OpenError")
        self._inc()
        return pt

    def export(self, exporter_context, length):
        try:
            return _h.labeled_expand(
                self.suite.kdf_id,
                self.exporter_secret,
                self.suite.suite_id,
                b"sec",
                exporter_context,
                length,
            )
        except ValueError:
            raise RefError("KdfOutputTooLong")


class Suite:
    def __init__(self, kem_id, kdf_id, aead_id):
        self.kem = KEMS[kem_id]
        self.kem_id = kem_id
        self.kdf_id = kdf_id
        self.aead_id = aead_id
        self.nk, self.nn, self.nt = _aead.params(aead_id)
        self.nh = _h.nh(kdf_id)
        self.suite_id = b"HPKE" + _h.i2osp(kem_id, 2) + _h.i2osp(kdf_id, 2) + _h.i2osp(aead_id, 2)

    def key_schedule(self, mode, shared_secret, info, psk=b"", psk_id=b"", full=False):
        k = self.kdf_id
        sid = self.suite_id
        psk_id_hash = _h.labeled_extract(k, b"", sid, b"psk_id_hash", psk_id)
        info_hash = _h.labeled_extract(k, b"", sid, b"info_hash", info)
        ksc = bytes([mode]) + psk_id_hash + info_hash
        secret = _h.labeled_extract(k, shared_secret, sid, b"secret", psk)
        key = _h.labeled_expand(k, secret, sid, b"key", ksc, self.nk)
        base_nonce = _h.labeled_expand(k, secret, sid, b"base_nonce", ksc, self.nn)
        exporter_secret = _h.labeled_expand(k, secret, sid, b"exp", ksc, self.nh)
        ctx = Context(self, key, base_nonce, exporter_secret)
        if full:
            return ctx, dict(key_schedule_context=ksc, secret=secret)
        return ctx

    def setup_s(self, mode, pkR, info, ikmE, psk=b"", psk_id=b"", skS=None, pkS_claimed=None):
        """pkR: deserialized public key.  Returns (enc, ctx, shared_secret)."""
        if mode in (MODE_AUTH, MODE_AUTH_PSK):
            ss, enc = self.kem.encap(pkR, ikmE, skS, pkS_claimed)
        else:
            ss, enc = self.kem.encap(pkR, ikmE)
        return enc, self.key_schedule(mode, ss, info, psk, psk_id), ss

    def setup_r(self, mode, enc, skR, info, psk=b"", psk_id=b"", pkS=None):
        if mode in (MODE_AUTH, MODE_AUTH_PSK):
            ss = self.kem.decap(enc, skR, pkS)
        else:
            ss = self.kem.decap(enc, skR)
        return self.key_schedule(mode, ss, info, psk, psk_id), ss


_suites = {}


def suite(kem_id, kdf_id, aead_id):
    k = (kem_id, kdf_id, aead_id)
    if k not in _suites:
        _suites[k] = Suite(*k)
    return _suites[k]


def all_suites(sealing_only=False):
    out = []
    for kem in sorted(KEMS):
        for kdf in KDFS:
            for a in AEADS:
                if sealing_only and a == 0xFFFF:
                    continue
                out.append((kem, kdf, a))
    return out
