"""AES-128-GCM, AES-256-GCM, ChaCha20-Poly1305 through ctypes on the system libcrypto.
This is the AEAD primitive oracle: OpenSSL, not RustCrypto."""
import ctypes
import ctypes.util

_lib = None


def _load():
    global _lib
    if _lib is not None:
        return _lib
    last = None
    for name in ("libcrypto.so.3", ctypes.util.find_library("crypto"), "libcrypto.so"):
        if not name:
            continue
        try:
            _lib = ctypes.CDLL(name)
            break
        except OSError as e:  # pragma: no cover
            last = e
    if _lib is None:
        raise RuntimeError("libcrypto not loadable: %r" % (last,))
    L = _lib
    vp = ctypes.c_void_p
    ci = ctypes.c_int
    L.EVP_CIPHER_CTX_new.restype = vp
    L.EVP_CIPHER_CTX_free.argtypes = [vp]
    for fn in ("EVP_aes_128_gcm", "EVP_aes_256_gcm", "EVP_chacha20_poly1305"):
        getattr(L, fn).restype = vp
    L.EVP_EncryptInit_ex.argtypes = [vp, vp, vp, ctypes.c_char_p, ctypes.c_char_p]
    L.EVP_EncryptInit_ex.restype = ci
    L.EVP_DecryptInit_ex.argtypes = [vp, vp, vp, ctypes.c_char_p, ctypes.c_char_p]
    L.EVP_DecryptInit_ex.restype = ci
    L.EVP_CIPHER_CTX_ctrl.argtypes = [vp, ci, ci, vp]
    L.EVP_CIPHER_CTX_ctrl.restype = ci
    L.EVP_EncryptUpdate.argtypes = [vp, vp, ctypes.POINTER(ci), ctypes.c_char_p, ci]
    L.EVP_EncryptUpdate.restype = ci
    L.EVP_DecryptUpdate.argtypes = [vp, vp, ctypes.POINTER(ci), ctypes.c_char_p, ci]
    L.EVP_DecryptUpdate.restype = ci
    L.EVP_EncryptFinal_ex.argtypes = [vp, vp, ctypes.POINTER(ci)]
    L.EVP_EncryptFinal_ex.restype = ci
    L.EVP_DecryptFinal_ex.argtypes = [vp, vp, ctypes.POINTER(ci)]
    L.EVP_DecryptFinal_ex.restype = ci
    return L


EVP_CTRL_AEAD_SET_IVLEN = 0x9
EVP_CTRL_AEAD_GET_TAG = 0x10
EVP_CTRL_AEAD_SET_TAG = 0x11

# aead_id -> (Nk, Nn, Nt, evp name)
AEADS = {
    0x0001: (16, 12, 16, "EVP_aes_128_gcm"),
    0x0002: (32, 12, 16, "EVP_aes_256_gcm"),
    0x0003: (32, 12, 16, "EVP_chacha20_poly1305"),
    0xFFFF: (0, 0, 0, None),
}


def params(aead_id):
    return AEADS[aead_id][:3]


def seal(aead_id, key, nonce, aad, pt):
    """Returns ciphertext || tag."""
    nk, nn, nt, evp = AEADS[aead_id]
    assert evp is not None and len(key) == nk and len(nonce) == nn
    L = _load()
    ctx = L.EVP_CIPHER_CTX_new()
    try:
        outl = ctypes.c_int(0)
        assert L.EVP_EncryptInit_ex(ctx, getattr(L, evp)(), None, None, None) == 1
        assert L.EVP_CIPHER_CTX_ctrl(ctx, EVP_CTRL_AEAD_SET_IVLEN, nn, None) == 1
        assert L.EVP_EncryptInit_ex(ctx, None, None, key, nonce) == 1
        if aad:
            assert L.EVP_EncryptUpdate(ctx, None, ctypes.byref(outl), aad, len(aad)) == 1
        out = ctypes.create_string_buffer(len(pt) + 32)
        n = 0
        if pt:
            assert L.EVP_EncryptUpdate(ctx, out, ctypes.byref(outl), pt, len(pt)) == 1
            n = outl.value
        fin = ctypes.create_string_buffer(32)
        assert L.EVP_EncryptFinal_ex(ctx, fin, ctypes.byref(outl)) == 1
        assert outl.value == 0
        tag = ctypes.create_string_buffer(nt)
        assert L.EVP_CIPHER_CTX_ctrl(ctx, EVP_CTRL_AEAD_GET_TAG, nt, tag) == 1
        assert n == len(pt)
        return out.raw[:n] + tag.raw[:nt]
    finally:
        L.EVP_CIPHER_CTX_free(ctx)


def open_(aead_id, key, nonce, aad, ct):
    """ct = ciphertext || tag.  Returns plaintext or None."""
    nk, nn, nt, evp = AEADS[aead_id]
    assert evp is not None
    if len(ct) < nt:
        return None
    body, tag = ct[: len(ct) - nt], ct[len(ct) - nt :]
    L = _load()
    ctx = L.EVP_CIPHER_CTX_new()
    try:
        outl = ctypes.c_int(0)
        assert L.EVP_DecryptInit_ex(ctx, getattr(L, evp)(), None, None, None) == 1
        assert L.EVP_CIPHER_CTX_ctrl(ctx, EVP_CTRL_AEAD_SET_IVLEN, nn, None) == 1
        assert L.EVP_DecryptInit_ex(ctx, None, None, key, nonce) == 1
        if aad:
            assert L.EVP_DecryptUpdate(ctx, None, ctypes.byref(outl), aad, len(aad)) == 1
        out = ctypes.create_string_buffer(len(body) + 32)
        n = 0
        if body:
            assert L.EVP_DecryptUpdate(ctx, out, ctypes.byref(outl), body, len(body)) == 1
            n = outl.value
        tagbuf = ctypes.create_string_buffer(tag, nt)
        assert L.EVP_CIPHER_CTX_ctrl(ctx, EVP_CTRL_AEAD_SET_TAG, nt, tagbuf) == 1
        fin = ctypes.create_string_buffer(32)
        ok = L.EVP_DecryptFinal_ex(ctx, fin, ctypes.byref(outl))
        if ok != 1:
            return None
        return out.raw[:n]
    finally:
        L.EVP_CIPHER_CTX_free(ctx)
