"""Anchors the reference model against published vectors and against libcrypto.
A failure here makes every check *inconclusive* (never a violation)."""
import ctypes
import os
import random
import sys

from . import aead, curves, hkdf
from . import hpke_ref as R

H = bytes.fromhex


def _eq(name, got, want, fails):
    if got != want:
        fails.append("%s: got %s want %s" % (name, got.hex() if isinstance(got, bytes) else got,
                                             want.hex() if isinstance(want, bytes) else want))


def rfc9180_a11(fails):
    s = R.suite(0x0020, 1, 1)
    info = H("4f6465206f6e2061204772656369616e2055726e")
    skE, pkE = s.kem.derive_key_pair(H("7268600d403fce431561aef583ee1613527cff655c1343f29812e66706df3234"))
    _eq("A.1.1 skEm", skE, H("52c4a758a802cd8b936eceea314432798d5baf2d7e9235dc084ab1b9cfa2f736"), fails)
    _eq("A.1.1 pkEm", pkE, H("37fda3567bdbd628e88668c3c8d7e97d1d1253b6d4ea6d44c150f741f1bf4431"), fails)
    skR, pkR = s.kem.derive_key_pair(H("6db9df30aa07dd42ee5e8181afdb977e538f5e1fec8a06223f33f7013e525037"))
    _eq("A.1.1 skRm", skR, H("4612c550263fc8ad58375df3f557aac531d26850903e55a9f23f21d8534e8ac8"), fails)
    _eq("A.1.1 pkRm", pkR, H("3948cfe0ad1ddb695d780e59077195da6c56506b027329794ab02bca80815c4d"), fails)
    enc, ctx, ss = s.setup_s(0, pkR, info, H("7268600d403fce431561aef583ee1613527cff655c1343f29812e66706df3234"))
    _eq("A.1.1 enc", enc, pkE, fails)
    _eq("A.1.1 shared_secret", ss, H("fe0e18c9f024ce43799ae393c7e8fe8fce9d218875e8227b0187c04e7d2ea1fc"), fails)
    _eq("A.1.1 key", ctx.key, H("4531685d41d65f03dc48f6b8302c05b0"), fails)
    _eq("A.1.1 base_nonce", ctx.base_nonce, H("56d890e5accaaf011cff4b7d"), fails)
    _eq("A.1.1 exporter_secret", ctx.exporter_secret,
        H("45ff1c2e220db587171952c0592d5f5ebe103f1561a2614e38f2ffd47e99e3f8"), fails)
    pt = H("4265617574792069732074727574682c20747275746820626561757479")
    ct0 = ctx.seal(H("436f756e742d30"), pt)
    _eq("A.1.1 ct0", ct0, H("f938558b5d72f1a23810b4be2ab4f84331acc02fc97babc53a52ae8218a355a96d8770ac83d07bea87e13c512a"), fails)
    ct1 = ctx.seal(H("436f756e742d31"), pt)
    _eq("A.1.1 ct1", ct1, H("af2d7e9ac9ae7e270f46ba1f975be53c09f8d875bdc8535458c2494e8a6eab251c03d0c22a56b8ca42c2063b84"), fails)
    _eq("A.1.1 export ''", ctx.export(b"", 32),
        H("3853fe2b4035195a573ffc53856e77058e15d9ea064de3e59f4961d0095250ee"), fails)
    _eq("A.1.1 export 00", ctx.export(b"\x00", 32),
        H("2e8f0b54673c7029649d4eb9d5e33bf1872cf76d623ff164ac185da9e88c21a5"), fails)
    _eq("A.1.1 export TestContext", ctx.export(b"TestContext", 32),
        H("e9e43065102c3836401bed8c3c3c75ae46be1639869391d62c61f1ec7af54931"), fails)
    rctx, ss2 = s.setup_r(0, enc, skR, info)
    _eq("A.1.1 receiver ss", ss2, ss, fails)
    _eq("A.1.1 receiver open", rctx.open(H("436f756e742d30"), ct0), pt, fails)


def rfc9180_a3(fails):
    # DHKEM(P-256, HKDF-SHA256), HKDF-SHA256, AES-128-GCM, base
    s = R.suite(0x0010, 1, 1)
    k = s.kem
    ikmE = H("4270e54ffd08d79d5928020af4686d8f6b7d35dbe470265f1f5aa22816ce860e")
    skE, pkE = k.derive_key_pair(ikmE)
    _eq("A.3.1 skEm", k.serialize_private(skE), H("4995788ef4b9d6132b249ce59a77281493eb39af373d236a1fe415cb0c2d7beb"), fails)
    _eq("A.3.1 pkEm", k.serialize_public(pkE), H("04a92719c6195d5085104f469a8b9814d5838ff72b60501e2c4466e5e67b325ac98536d7b61a1af4b78e5b7f951c0900be863c403ce65c9bfcb9382657222d18c4"), fails)
    skR, pkR = k.derive_key_pair(H("668b37171f1072f3cf12ea8a236a45df23fc13b82af3609ad1e354f6ef817550"))
    _eq("A.3.1 skRm", k.serialize_private(skR), H("f3ce7fdae57e1a310d87f1ebbde6f328be0a99cdbcadf4d6589cf29de4b8ffd2"), fails)
    _eq("A.3.1 pkRm", k.serialize_public(pkR), H("04fe8c19ce0905191ebc298a9245792531f26f0cece2460639e8bc39cb7f706a826a779b4cf969b8a0e539c7f62fb3d30ad6aa8f80e30f1d128aafd68a2ce72ea0"), fails)
    enc, ctx, ss = s.setup_s(0, pkR, H("4f6465206f6e2061204772656369616e2055726e"), ikmE)
    _eq("A.3.1 shared_secret", ss, H("c0d26aeab536609a572b07695d933b589dcf363ff9d93c93adea537aeabb8cb8"), fails)
    _eq("A.3.1 key", ctx.key, H("868c066ef58aae6dc589b6cfdd18f97e"), fails)
    _eq("A.3.1 base_nonce", ctx.base_nonce, H("4e0bc5018beba4bf004cca59"), fails)
    _eq("A.3.1 exporter_secret", ctx.exporter_secret, H("14ad94af484a7ad3ef40e9f3be99ecc6fa9036df9d4920548424df127ee0d99f"), fails)


def rfc7748(fails):
    out = curves.x25519(H("a546e36bf0527c9d3b16154b82465edd62144c0ac1fc5a18506a2244ba449ac4"),
                        H("e6db6867583030db3594c1a424b15f7c726624ec26b3353b10a903a6d0ab1c4c"))
    _eq("RFC7748 5.2 #1", out, H("c3da55379de9c6908e94ea4df28d084f32eccf03491c71f754b4075577a28552"), fails)
    out = curves.x25519(H("4b66e9d4d1b4673c5ad22691957d6af5c11b6421e0ea01d42ca4169e7918ba0d"),
                        H("e5210f12786811d3f4b7959d0538ae2c31dbe7106fc03c3efc4cd549c715a493"))
    _eq("RFC7748 5.2 #2", out, H("95cbde9476e8907d7aade45cb4b873f88b595a68799fa152e6f8f7647aac7957"), fails)
    # the small-order table must give zero for arbitrary scalars
    rnd = random.Random(7)
    for enc in curves.X25519_SMALL_ORDER:
        for _ in range(2):
            k = bytes(rnd.getrandbits(8) for _ in range(32))
            if curves.x25519(k, enc) != b"\x00" * 32:
                fails.append("small-order table entry %s does not give zero" % enc.hex())
    if len(set(curves.X25519_SMALL_ORDER)) != 14:
        fails.append("small-order table does not have 14 distinct entries")


def rfc8439_and_gcm(fails):
    # RFC 8439 2.8.2
    key = H("808182838485868788898a8b8c8d8e8f909192939495969798999a9b9c9d9e9f")
    nonce = H("070000004041424344454647")
    aad = H("50515253c0c1c2c3c4c5c6c7")
    pt = (b"Ladies and Gentlemen of the class of '99: If I could offer you only one tip for the "
          b"future, sunscreen would be it.")
    ct = aead.seal(3, key, nonce, aad, pt)
    _eq("RFC8439 tag", ct[-16:], H("1ae10b594f09e26a7e902ecbd0600691"), fails)
    _eq("RFC8439 ct head", ct[:16], H("d31a8d34648e60db7b86afbc53ef7ec2"), fails)
    if aead.open_(3, key, nonce, aad, ct) != pt:
        fails.append("RFC8439 open failed")
    if aead.open_(3, key, nonce, aad + b"x", ct) is not None:
        fails.append("RFC8439 open accepted wrong aad")
    # GCM spec test case 1 and 2 (AES-128, zero key)
    ct = aead.seal(1, b"\x00" * 16, b"\x00" * 12, b"", b"")
    _eq("GCM TC1", ct, H("58e2fccefa7e3061367f1d57a4e7455a"), fails)
    ct = aead.seal(1, b"\x00" * 16, b"\x00" * 12, b"", b"\x00" * 16)
    _eq("GCM TC2", ct, H("0388dace60b6a392f328c2b971b2fe78ab6e47d42cec13bdf53a67b21257bddf"), fails)
    # AES-256 GCM test case 13/14
    ct = aead.seal(2, b"\x00" * 32, b"\x00" * 12, b"", b"")
    _eq("GCM TC13", ct, H("530f8afbc74536b9a963b4f1c4cb738b"), fails)
    ct = aead.seal(2, b"\x00" * 32, b"\x00" * 12, b"", b"\x00" * 16)
    _eq("GCM TC14", ct, H("cea7403d4d606b6e074ec5d3baf39d18d0d1c8a799996bf0265b98b5d48ab919"), fails)


def rfc5869(fails):
    ikm = H("0b" * 22)
    salt = H("000102030405060708090a0b0c")
    info = H("f0f1f2f3f4f5f6f7f8f9")
    prk = hkdf.extract(1, salt, ikm)
    _eq("RFC5869 prk", prk, H("077709362c2e32df0ddc3f0dc47bba6390b6c73bb50f9c3122ec844ad7c2b3e5"), fails)
    okm = hkdf.expand(1, prk, info, 42)
    _eq("RFC5869 okm", okm, H("3cb25f25faacd57a90434f64d0362f2a2d2d0a90cf1a5a4c5db02d56ecc4c5bf34007208d5b887185865"), fails)


def rfc5903(fails):
    c = curves.P256
    i = 0xC88F01F510D9AC3F70A292DAA2316DE544E9AAB8AFE84049C62A9C57862D1433
    r = 0xC6EF9C5D78AE012A011164ACB397CE2088685D8F06BF9BE0B283AB46476BEE53
    gi = c.mul_base(i)
    _eq("RFC5903 256 gix", gi[0], 0xDAD0B65394221CF9B051E1FECA5787D098DFE637FC90B9EF945D0C3772581180, fails)
    _eq("RFC5903 256 giy", gi[1], 0x5271A0461CDB8252D61F1C456FA3E59AB1F45B33ACCF5F58389E0577B8990BB3, fails)
    gir = c.mul(r, gi)
    _eq("RFC5903 256 girx", gir[0], 0xD6840F6B42F6EDAFD13116E0E12565202FEF8E9ECE7DCE03812464D04B9442DE, fails)
    c = curves.P384
    i = 0x099F3C7034D4A2C699884D73A375A67F7624EF7C6B3C0F160647B67414DCE655E35B538041E649EE3FAEF896783AB194
    r = 0x41CB0779B4BDB85D47846725FBEC3C9430FAB46CC8DC5060855CC9BDA0AA2942E0308312916B8ED2960E4BD55A7448FC
    gi = c.mul_base(i)
    _eq("RFC5903 384 gix", gi[0], 0x667842D7D180AC2CDE6F74F37551F55755C7645C20EF73E31634FE72B4C55EE6DE3AC808ACB4BDB4C88732AEE95F41AA, fails)
    gir = c.mul(r, gi)
    _eq("RFC5903 384 girx", gir[0], 0x11187331C279962D93D604243FD592CB9D0A926F422E47187521287E7156C5C4D603135569B9E9D09CF5D4A270F59746, fails)
    c = curves.P521
    i = 0x0037ADE9319A89F4DABDB3EF411AACCCA5123C61ACAB57B5393DCE47608172A095AA85A30FE1C2952C6771D937BA9777F5957B2639BAB072462F68C27A57382D4A52
    r = 0x0145BA99A847AF43793FDD0E872E7CDFA16BE30FDC780F97BCCC3F078380201E9C677D600B343757A3BDBF2A3163E4C2F869CCA7458AA4A4EFFC311F5CB151685EB9
    gi = c.mul_base(i)
    _eq("RFC5903 521 gix", gi[0], 0x0015417E84DBF28C0AD3C278713349DC7DF153C897A1891BD98BAB4357C9ECBEE1E3BF42E00B8E380AEAE57C2D107564941885942AF5A7F4601723C4195D176CED3E, fails)
    gir = c.mul(r, gi)
    _eq("RFC5903 521 girx", gir[0], 0x01144C7D79AE6956BC8EDB8E7C787C4521CB086FA64407F97894E5E6B2D79B04D1427E73CA4BAA240A34786859810C06B3C715A3A8CC3151F2BEE417996D19F3DDEA, fails)
    for c in curves.CURVES.values():
        if not c.on_curve(c.G):
            fails.append("%s: G not on curve" % c.name)
        if c.mul(c.n, c.G) is not None:
            fails.append("%s: n*G != identity" % c.name)
        if c.mul(c.n - 1, c.G) != c.neg(c.G):
            fails.append("%s: (n-1)*G != -G" % c.name)
        if c.mul_base(12345) != c.mul(12345, c.G):
            fails.append("%s: mul_base != mul" % c.name)


def libcrypto_ec(fails, rounds=3):
    """Cross-check scalar multiplication against OpenSSL's EC_POINT_mul on random scalars."""
    L = aead._load()
    vp = ctypes.c_void_p
    L.EC_GROUP_new_by_curve_name.restype = vp
    L.EC_GROUP_new_by_curve_name.argtypes = [ctypes.c_int]
    L.EC_POINT_new.restype = vp
    L.EC_POINT_new.argtypes = [vp]
    L.BN_bin2bn.restype = vp
    L.BN_bin2bn.argtypes = [ctypes.c_char_p, ctypes.c_int, vp]
    L.EC_POINT_mul.argtypes = [vp, vp, vp, vp, vp, vp]
    L.EC_POINT_mul.restype = ctypes.c_int
    L.EC_POINT_point2oct.argtypes = [vp, vp, ctypes.c_int, ctypes.c_char_p, ctypes.c_size_t, vp]
    L.EC_POINT_point2oct.restype = ctypes.c_size_t
    L.EC_POINT_oct2point.argtypes = [vp, vp, ctypes.c_char_p, ctypes.c_size_t, vp]
    L.EC_POINT_oct2point.restype = ctypes.c_int
    L.BN_free.argtypes = [vp]
    L.EC_POINT_free.argtypes = [vp]
    L.EC_GROUP_free.argtypes = [vp]
    nids = {"p256": 415, "p384": 715, "p521": 716}
    rnd = random.Random(99)
    for name, c in curves.CURVES.items():
        g = L.EC_GROUP_new_by_curve_name(nids[name])
        if not g:
            fails.append("libcrypto: no group %s" % name)
            continue
        for _ in range(rounds):
            k = rnd.randrange(1, c.n)
            k2 = rnd.randrange(1, c.n)
            kb = k.to_bytes(c.nbytes, "big")
            bn = L.BN_bin2bn(kb, len(kb), None)
            pt = L.EC_POINT_new(g)
            assert L.EC_POINT_mul(g, pt, bn, None, None, None) == 1
            buf = ctypes.create_string_buffer(200)
            n = L.EC_POINT_point2oct(g, pt, 4, buf, 200, None)
            mine = c.encode_public(c.mul_base(k))
            _eq("libcrypto %s k*G" % name, buf.raw[:n], mine, fails)
            # k2 * (k*G)
            k2b = k2.to_bytes(c.nbytes, "big")
            bn2 = L.BN_bin2bn(k2b, len(k2b), None)
            pt2 = L.EC_POINT_new(g)
            assert L.EC_POINT_mul(g, pt2, None, pt, bn2, None) == 1
            n = L.EC_POINT_point2oct(g, pt2, 4, buf, 200, None)
            mine2 = c.encode_public(c.mul(k2, c.mul_base(k)))
            _eq("libcrypto %s k2*(k*G)" % name, buf.raw[:n], mine2, fails)
            L.BN_free(bn)
            L.BN_free(bn2)
            L.EC_POINT_free(pt)
            L.EC_POINT_free(pt2)
        L.EC_GROUP_free(g)


def run(verbose=False):
    fails = []
    for f in (rfc5869, rfc7748, rfc8439_and_gcm, rfc5903, rfc9180_a11, rfc9180_a3, libcrypto_ec):
        try:
            f(fails)
        except Exception as e:  # noqa
            fails.append("%s raised %r" % (f.__name__, e))
        if verbose:
            print("selftest %-18s %s" % (f.__name__, "ok" if not fails else "FAIL"))
    return fails


if __name__ == "__main__":
    fl = run(verbose=True)
    for x in fl:
        print("SELFTEST-FAIL", x)
    sys.exit(1 if fl else 0)
