"""HKDF (RFC 5869) and the RFC 9180 labeled variants, on hashlib/hmac only."""
import hashlib
import hmac

HASHES = {
    0x0001: ("sha256", 32),
    0x0002: ("sha384", 48),
    0x0003: ("sha512", 64),
}


def nh(kdf_id):
    return HASHES[kdf_id][1]


def extract(kdf_id, salt, ikm):
    name, n = HASHES[kdf_id]
    if not salt:
        salt = b"\x00" * n
    return hmac.new(salt, ikm, name).digest()


def expand(kdf_id, prk, info, length):
    name, n = HASHES[kdf_id]
    if length > 255 * n:
        raise ValueError("KdfOutputTooLong")
    out = b""
    t = b""
    i = 1
    while len(out) < length:
        t = hmac.new(prk, t + info + bytes([i]), name).digest()
        out += t
        i += 1
    return out[:length]


def i2osp(n, w):
    return int(n).to_bytes(w, "big")


def labeled_extract(kdf_id, salt, suite_id, label, ikm):
    return extract(kdf_id, salt, b"HPKE-v1" + suite_id + label + ikm)


def labeled_expand(kdf_id, prk, suite_id, label, info, length):
    if length > 65535:
        raise ValueError("KdfOutputTooLong")
    if length > 255 * nh(kdf_id):
        raise ValueError("KdfOutputTooLong")
    labeled_info = i2osp(length, 2) + b"HPKE-v1" + suite_id + label + info
    return expand(kdf_id, prk, labeled_info, length)
