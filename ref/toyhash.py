"""RFC 9180 DeriveKeyPair over an arbitrary hash function (generic HMAC / HKDF written from RFC 2104 / RFC 5869),
instantiated with the steerable "hash" of harness/src/toy.rs:

    H(x) = row x[len-2] of a 256 x 64 byte table (row 0 if len(x) < 2), block size 128, output size 64.

Used by C03 to choose every DeriveKeyPair candidate of the NIST curves (the retry loop is unreachable with a
real hash for P-384 / P-521)."""

from . import curves as _c

BLOCK = 128
OUT = 64


def toy_hash(table, data):
    row = data[-2] if len(data) >= 2 else 0
    return bytes(table[row * OUT:(row + 1) * OUT]).ljust(OUT, b"\x00")


def hmac_(h, key, msg):
    if len(key) > BLOCK:
        key = h(key)
    key = key.ljust(BLOCK, b"\x00")
    inner = h(bytes(k ^ 0x36 for k in key) + msg)
    return h(bytes(k ^ 0x5C for k in key) + inner)


def extract(h, salt, ikm):
    return hmac_(h, salt, ikm)


def expand(h, prk, info, length):
    out, t, i = b"", b"", 1
    while len(out) < length:
        t = hmac_(h, prk, t + info + bytes([i]))
        out += t
        i += 1
    return out[:length]


def labeled_extract(h, salt, suite_id, label, ikm):
    return extract(h, salt, b"HPKE-v1" + suite_id + label + ikm)


def labeled_expand(h, prk, suite_id, label, info, length):
    return expand(h, prk, length.to_bytes(2, "big") + b"HPKE-v1" + suite_id + label + info, length)


NIST = {0x0010: (_c.P256, 32, 0xFF), 0x0011: (_c.P384, 48, 0xFF), 0x0012: (_c.P521, 66, 0x01)}


def derive(kem_id, ikm, table):
    """-> ("ok", sk_bytes, counter, candidates_seen) or ("error", None, 256, ...) per RFC 9180 7.1.3, or for X25519
    ("ok", sk_bytes(unclamped), 0, [])"""
    def h(d):
        return toy_hash(table, d)
    suite_id = b"KEM" + kem_id.to_bytes(2, "big")
    prk = labeled_extract(h, b"", suite_id, b"dkp_prk", ikm)
    if kem_id == 0x0020:
        return "ok", labeled_expand(h, prk, suite_id, b"sk", b"", 32), 0, []
    curve, nsk, mask = NIST[kem_id]
    seen = []
    for counter in range(256):
        b = bytearray(labeled_expand(h, prk, suite_id, b"candidate", bytes([counter]), nsk))
        b[0] &= mask
        v = int.from_bytes(b, "big")
        seen.append(v)
        if 0 < v < curve.n:
            return "ok", bytes(b), counter, seen
    return "error", None, 256, seen
