"""NIST P-256/P-384/P-521 and X25519 on Python integers, written from SEC1 / FIPS 186-4 /
RFC 7748.  Shares nothing with the crate under test.

Public API
  CURVES[name] -> Curve (p, a, b, n, G, byte sizes)
  Curve.mul(k, P), Curve.add(P, Q), Curve.on_curve(P)
  Curve.decode_public(bytes) -> ('ok', (x, y)) | ('len', expected, given) | ('invalid', why)
  Curve.decode_private(bytes) -> ('ok', d) | ('len', e, g) | ('invalid', why)
  Curve.encode_public(P), Curve.encode_private(d)
  x25519(k_bytes, u_bytes) -> 32 bytes;  x25519_base(k_bytes)
  X25519_SMALL_ORDER: the 14 32-byte encodings whose DH output is all-zero for every scalar
"""


class Curve:
    def __init__(self, name, p, b, n, gx, gy, nbytes):
        self.name = name
        self.p = p
        self.a = p - 3
        self.b = b
        self.n = n
        self.G = (gx, gy)
        self.nbytes = nbytes  # field element / scalar width in bytes
        self.npk = 1 + 2 * nbytes
        self.nsk = nbytes
        self.ndh = nbytes
        self._gtab = None

    # ---- affine helpers -------------------------------------------------
    def on_curve(self, P):
        if P is None:
            return False
        x, y = P
        p = self.p
        if not (0 <= x < p and 0 <= y < p):
            return False
        return (y * y - (x * x * x + self.a * x + self.b)) % p == 0

    # ---- Jacobian arithmetic (a = -3) ------------------------------------
    def _dbl(self, P):
        X1, Y1, Z1 = P
        p = self.p
        if Z1 == 0 or Y1 == 0:
            return (1, 1, 0)
        delta = Z1 * Z1 % p
        gamma = Y1 * Y1 % p
        beta = X1 * gamma % p
        alpha = 3 * (X1 - delta) * (X1 + delta) % p
        X3 = (alpha * alpha - 8 * beta) % p
        Z3 = ((Y1 + Z1) * (Y1 + Z1) - gamma - delta) % p
        Y3 = (alpha * (4 * beta - X3) - 8 * gamma * gamma) % p
        return (X3, Y3, Z3)

    def _addj(self, P, Q):
        p = self.p
        X1, Y1, Z1 = P
        X2, Y2, Z2 = Q
        if Z1 == 0:
            return Q
        if Z2 == 0:
            return P
        Z1Z1 = Z1 * Z1 % p
        Z2Z2 = Z2 * Z2 % p
        U1 = X1 * Z2Z2 % p
        U2 = X2 * Z1Z1 % p
        S1 = Y1 * Z2 * Z2Z2 % p
        S2 = Y2 * Z1 * Z1Z1 % p
        if U1 == U2:
            if S1 == S2:
                return self._dbl(P)
            return (1, 1, 0)
        H = (U2 - U1) % p
        R = (S2 - S1) % p
        HH = H * H % p
        HHH = H * HH % p
        V = U1 * HH % p
        X3 = (R * R - HHH - 2 * V) % p
        Y3 = (R * (V - X3) - S1 * HHH) % p
        Z3 = H * Z1 * Z2 % p
        return (X3, Y3, Z3)

    def _to_affine(self, P):
        X, Y, Z = P
        if Z == 0:
            return None
        p = self.p
        zi = pow(Z, -1, p)
        zi2 = zi * zi % p
        return (X * zi2 % p, Y * zi2 * zi % p)

    def add(self, P, Q):
        """Affine add; None is the identity."""
        JP = (1, 1, 0) if P is None else (P[0], P[1], 1)
        JQ = (1, 1, 0) if Q is None else (Q[0], Q[1], 1)
        return self._to_affine(self._addj(JP, JQ))

    def neg(self, P):
        if P is None:
            return None
        return (P[0], (-P[1]) % self.p)

    def mul(self, k, P):
        """k*P for an affine point P that need not be on *this* curve's b (the formulas do
        not use b), 4-bit fixed window; returns affine or None."""
        if P is None or k == 0:
            return None
        if k < 0:
            return self.mul(-k, self.neg(P))
        J = (P[0], P[1], 1)
        tab = [(1, 1, 0), J]
        for i in range(2, 16):
            tab.append(self._addj(tab[i - 1], J))
        acc = (1, 1, 0)
        nibbles = []
        kk = k
        while kk:
            nibbles.append(kk & 15)
            kk >>= 4
        for nib in reversed(nibbles):
            acc = self._dbl(self._dbl(self._dbl(self._dbl(acc))))
            if nib:
                acc = self._addj(acc, tab[nib])
        return self._to_affine(acc)

    def mul_base(self, k):
        """k*G with a cached comb table (8-bit windows)."""
        if self._gtab is None:
            tab = []
            base = (self.G[0], self.G[1], 1)
            nwin = (self.n.bit_length() + 7) // 8
            for _ in range(nwin):
                row = [(1, 1, 0), base]
                for i in range(2, 256):
                    row.append(self._addj(row[i - 1], base))
                tab.append(row)
                for _ in range(8):
                    base = self._dbl(base)
                # keep numbers small
                aff = self._to_affine(base)
                base = (aff[0], aff[1], 1)
            self._gtab = tab
        k %= self.n
        acc = (1, 1, 0)
        i = 0
        while k:
            w = k & 255
            if w:
                acc = self._addj(acc, self._gtab[i][w])
            k >>= 8
            i += 1
        return self._to_affine(acc)

    # ---- encodings -------------------------------------------------------
    def encode_public(self, P):
        x, y = P
        return b"\x04" + x.to_bytes(self.nbytes, "big") + y.to_bytes(self.nbytes, "big")

    def encode_private(self, d):
        return d.to_bytes(self.nbytes, "big")

    def decode_public(self, data):
        """The decision procedure of property C09 for public / encapsulated keys."""
        if len(data) != self.npk:
            return ("len", self.npk, len(data))
        if data[0] != 0x04:
            return ("invalid", "tag")
        x = int.from_bytes(data[1 : 1 + self.nbytes], "big")
        y = int.from_bytes(data[1 + self.nbytes :], "big")
        if x >= self.p or y >= self.p:
            return ("invalid", "noncanonical")
        if not self.on_curve((x, y)):
            return ("invalid", "offcurve")
        return ("ok", (x, y))

    def decode_private(self, data):
        if len(data) != self.nsk:
            return ("len", self.nsk, len(data))
        d = int.from_bytes(data, "big")
        if d == 0:
            return ("invalid", "zero")
        if d >= self.n:
            return ("invalid", "range")
        return ("ok", d)

    def dh(self, d, P):
        """ECDH: x-coordinate of d*P, Ndh bytes."""
        R = self.mul(d, P)
        if R is None:
            raise ValueError("identity")
        return R[0].to_bytes(self.nbytes, "big")

    # ---- helpers for hostile inputs --------------------------------------
    def sqrt(self, a):
        """Square root mod p (p = 3 mod 4 for all three curves) or None."""
        p = self.p
        a %= p
        r = pow(a, (p + 1) // 4, p)
        if r * r % p == a:
            return r
        return None

    def lift_x(self, x, b=None):
        """y with y^2 = x^3 - 3x + b (b defaults to the curve's), or None."""
        if b is None:
            b = self.b
        return self.sqrt(x * x * x + self.a * x + b)


P256 = Curve(
    "p256",
    0xFFFFFFFF00000001000000000000000000000000FFFFFFFFFFFFFFFFFFFFFFFF,
    0x5AC635D8AA3A93E7B3EBBD55769886BC651D06B0CC53B0F63BCE3C3E27D2604B,
    0xFFFFFFFF00000000FFFFFFFFFFFFFFFFBCE6FAADA7179E84F3B9CAC2FC632551,
    0x6B17D1F2E12C4247F8BCE6E563A440F277037D812DEB33A0F4A13945D898C296,
    0x4FE342E2FE1A7F9B8EE7EB4A7C0F9E162BCE33576B315ECECBB6406837BF51F5,
    32,
)

P384 = Curve(
    "p384",
    2**384 - 2**128 - 2**96 + 2**32 - 1,
    0xB3312FA7E23EE7E4988E056BE3F82D19181D9C6EFE8141120314088F5013875AC656398D8A2ED19D2A85C8EDD3EC2AEF,
    0xFFFFFFFFFFFFFFFFFFFFFFFFFFFFFFFFFFFFFFFFFFFFFFFFC7634D81F4372DDF581A0DB248B0A77AECEC196ACCC52973,
    0xAA87CA22BE8B05378EB1C71EF320AD746E1D3B628BA79B9859F741E082542A385502F25DBF55296C3A545E3872760AB7,
    0x3617DE4A96262C6F5D9E98BF9292DC29F8F41DBD289A147CE9DA3113B5F0B8C00A60B1CE1D7E819D7A431D7C90EA0E5F,
    48,
)

P521 = Curve(
    "p521",
    2**521 - 1,
    0x0051953EB9618E1C9A1F929A21A0B68540EEA2DA725B99B315F3B8B489918EF109E156193951EC7E937B1652C0BD3BB1BF073573DF883D2C34F1EF451FD46B503F00,
    0x01FFFFFFFFFFFFFFFFFFFFFFFFFFFFFFFFFFFFFFFFFFFFFFFFFFFFFFFFFFFFFFFFFA51868783BF2F966B7FCC0148F709A5D03BB5C9B8899C47AEBB6FB71E91386409,
    0x00C6858E06B70404E9CD9E3ECB662395B4429C648139053FB521F828AF606B4D3DBAA14B5E77EFE75928FE1DC127A2FFA8DE3348B3C1856A429BF97E7E31C2E5BD66,
    0x011839296A789A3BC0045C8A5FB42C7D1BD998F54449579B446817AFBD17273E662C97EE72995EF42640C550B9013FAD0761353C7086A272C24088BE94769FD16650,
    66,
)

CURVES = {"p256": P256, "p384": P384, "p521": P521}

# ---------------------------------------------------------------------------
# X25519 (RFC 7748 section 5)
# ---------------------------------------------------------------------------
P25519 = 2**255 - 19
A24 = 121665


def clamp(k):
    k = bytearray(k)
    k[0] &= 248
    k[31] &= 127
    k[31] |= 64
    return bytes(k)


def x25519(k, u):
    kk = int.from_bytes(clamp(k), "little")
    ub = bytearray(u)
    ub[31] &= 127
    x1 = int.from_bytes(ub, "little") % P25519
    x2, z2, x3, z3 = 1, 0, x1, 1
    swap = 0
    p = P25519
    for t in range(254, -1, -1):
        kt = (kk >> t) & 1
        swap ^= kt
        if swap:
            x2, x3 = x3, x2
            z2, z3 = z3, z2
        swap = kt
        A = (x2 + z2) % p
        AA = A * A % p
        B = (x2 - z2) % p
        BB = B * B % p
        E = (AA - BB) % p
        C = (x3 + z3) % p
        D = (x3 - z3) % p
        DA = D * A % p
        CB = C * B % p
        x3 = (DA + CB) % p
        x3 = x3 * x3 % p
        z3 = (DA - CB) % p
        z3 = x1 * z3 * z3 % p
        x2 = AA * BB % p
        z2 = E * (AA + A24 * E) % p
    if swap:
        x2, x3 = x3, x2
        z2, z3 = z3, z2
    return (x2 * pow(z2, p - 2, p) % p).to_bytes(32, "little")


def x25519_base(k):
    return x25519(k, (9).to_bytes(32, "little"))


def _small_order_table():
    # u-coordinates of the points of order 1, 2, 4, 8 on Curve25519 and its twist
    # (RFC 7748 section 6.1 / the well-known list), canonical and non-canonical forms
    # that fit into 255 bits, each with the unused bit 255 clear and set.
    o8a = 325606250916557431795983626356110631294008115727848805560023387167927233504
    o8b = 39382357235489614581723060781553021112529911719440698176882885853963445705823
    us = [0, 1, o8a, o8b, P25519 - 1, P25519, P25519 + 1]
    out = []
    for u in us:
        b = u.to_bytes(32, "little")
        out.append(b)
        hb = bytearray(b)
        hb[31] |= 0x80
        out.append(bytes(hb))
    return out


X25519_SMALL_ORDER = _small_order_table()
