"""Workload-generation helpers shared by the property modules."""
from ref import hpke_ref as R

KEMS = [0x0020, 0x0010, 0x0011, 0x0012]
KDFS = [1, 2, 3]
SEAL_AEADS = [1, 2, 3]
ALL_AEADS = [1, 2, 3, 0xFFFF]
MODES = [0, 1, 2, 3]
MODE_NAMES = {0: "base", 1: "psk", 2: "auth", 3: "auth_psk"}

LEN = [0, 1, 15, 16, 17, 31, 32, 33, 63, 64, 65, 127, 128, 129, 255, 256, 257, 4095, 4096, 4097,
       65535, 65536, 65537]
LEN_SMALL = [0, 1, 15, 16, 17, 31, 32, 33, 63, 64, 65, 127, 128, 129, 255, 256, 257]


def nsk(kem):
    return R.KEMS[kem].nsk


def npk(kem):
    return R.KEMS[kem].npk


def suites(sealing_only=True):
    return [(k, d, a) for k in KEMS for d in KDFS for a in (SEAL_AEADS if sealing_only else ALL_AEADS)]


def lenclass(n):
    if n == 0:
        return "0"
    if n < 16:
        return "1-15"
    if n == 16:
        return "16"
    if n < 64:
        return "17-63"
    if n < 256:
        return "64-255"
    if n < 4096:
        return "256-4095"
    if n < 65536:
        return "4096-65535"
    return ">=65536"


class G:
    """Seeded generator of byte-string arguments.  Long strings are emitted in the compact
    `@r:<seed>:<len>` form, which driver and checker both expand identically."""

    def __init__(self, rnd):
        self.rnd = rnd

    def seed64(self):
        return self.rnd.getrandbits(63)

    def rbytes(self, n):
        """n random bytes as a case-language argument string"""
        if n == 0:
            return "-"
        if n <= 64:
            return bytes(self.rnd.getrandbits(8) for _ in range(n)).hex()
        return "@r:%d:%d" % (self.seed64(), n)

    def raw(self, n):
        return bytes(self.rnd.getrandbits(8) for _ in range(n))

    def length(self, pool=LEN, extra_random=0.3, maxrand=2000):
        if self.rnd.random() < extra_random:
            return self.rnd.randrange(0, maxrand)
        return self.rnd.choice(pool)

    def blob(self, pool=LEN, **kw):
        return self.rbytes(self.length(pool, **kw))

    def psk_pair(self):
        """(psk, psk_id) both non-empty and different"""
        a = self.rbytes(self.rnd.choice([1, 16, 32, 33, 64, 100]))
        b = self.rbytes(self.rnd.choice([1, 2, 8, 32, 65]))
        if a == b:
            b = b + "00"
        return a, b


def add_keys(s, g, kem, name, ikm=None):
    """derive_keypair into register `name` from random ikm"""
    return s.call("derive_keypair", ikm=ikm if ikm is not None else g.rbytes(nsk(kem)), out=name)


def add_pair(s, g, kem, mode, info="-", psk=None, pskid=None, sname="S", rname="R", kr="kR", ks="kS",
             receiver=True, rng=None, new_keys=True):
    """Adds key derivation + setup_s (+ setup_r) with matching parameters.  Returns the dict of
    mode arguments used so perturbed receivers can be built from it."""
    if new_keys:
        add_keys(s, g, kem, kr)
        if mode in (2, 3):
            add_keys(s, g, kem, ks)
    margs = {}
    if mode in (1, 3):
        if psk is None:
            psk, pskid = g.psk_pair()
        margs["psk"] = psk
        margs["pskid"] = pskid
    sargs = dict(margs)
    rargs = dict(margs)
    if mode in (2, 3):
        sargs["sks"] = "$%s.sk" % ks
        sargs["pks"] = "$%s.pk" % ks
        rargs["pks"] = "$%s.pk" % ks
    s.call("setup_s", mode=mode, pkr="$%s.pk" % kr, info=info, rng=rng if rng is not None else g.rbytes(nsk(kem)),
           out=sname, **sargs)
    if receiver:
        s.call("setup_r", mode=mode, skr="$%s.sk" % kr, enc="$%s.enc" % sname, info=info, out=rname, **rargs)
    return dict(mode=mode, info=info, sargs=sargs, rargs=rargs)
