"""Shared machinery of every check: building and running the driver, verdict discipline,
known findings, replay files, evidence files."""
import collections
import json
import multiprocessing
import os
import random
import shutil
import signal
import subprocess
import sys
import time

from . import caselang as cl

VERIF = os.path.dirname(os.path.dirname(os.path.abspath(__file__)))
REPO = os.environ.get("VERIF_REPO", "/repo")
GUARD = "hpke_verif"
NCPU = max(1, min(16, os.cpu_count() or 1))

BASE_ENV = dict(os.environ)
BASE_ENV.update(
    {
        "CARGO_NET_OFFLINE": "true",
        "CARGO_TERM_COLOR": "never",
        "RUST_BACKTRACE": "0",
        # instrumented build scripts / proc macros of a coverage build write their profile here, not into /repo
        "LLVM_PROFILE_FILE": os.path.join(VERIF, "work", "profraw", "build-%p.profraw"),
    }
)


class Inconclusive(Exception):
    pass


def _write_if_changed(path, text):
    try:
        with open(path) as fh:
            if fh.read() == text:
                return
    except OSError:
        pass
    tmp = path + ".tmp.%d" % os.getpid()
    with open(tmp, "w") as fh:
        fh.write(text)
    os.replace(tmp, path)


def prepare_crate(cdir):
    """Instantiate Cargo.toml from the template and copy the repo's lock file so dependency
    resolution is offline and identical to the crate's own."""
    with open(os.path.join(cdir, "Cargo.toml.in")) as fh:
        t = fh.read().replace("@REPO@", REPO)
    _write_if_changed(os.path.join(cdir, "Cargo.toml"), t)
    lock = os.path.join(cdir, "Cargo.lock")
    if not os.path.exists(lock):
        shutil.copy(os.path.join(REPO, "Cargo.lock"), lock)


class Build:
    """How to build the driver in one variant."""

    def __init__(self, name, profile="release", hooks=True, features=None, toolchain=None,
                 rustflags="", target=None, zflags=(), no_default=False, cargo_env=None):
        self.name = name
        self.profile = profile
        self.hooks = hooks
        self.features = features
        self.toolchain = toolchain
        self.rustflags = rustflags
        self.target = target
        self.zflags = tuple(zflags)
        self.no_default = no_default or features is not None
        # settings a user would put into [profile.*]: passed as CARGO_PROFILE_* so that build scripts see them too
        self.cargo_env = dict(cargo_env or {})

    def target_dir(self):
        return os.path.join(VERIF, "target", self.name)

    def binary(self):
        d = self.target_dir()
        if self.target:
            d = os.path.join(d, self.target)
        return os.path.join(d, "release" if self.profile == "release" else self.profile, "driver")


BUILDS = {
    # optimized, overflow checks and debug assertions on: the default monitor build
    "checked": Build("checked"),
    # what a user ships
    "fast": Build("fast", profile="fast"),
    "asan": Build(
        "asan", toolchain="nightly", target="x86_64-unknown-linux-gnu",
        rustflags="-Zsanitizer=address -Cforce-frame-pointers=yes",
    ),
    "tsan": Build(
        "tsan", toolchain="nightly", target="x86_64-unknown-linux-gnu",
        rustflags="-Zsanitizer=thread", zflags=("-Zbuild-std",),
    ),
    "nohooks": Build("nohooks", hooks=False),
    # exactly what a user ships: guard off, no debug assertions
    "nohooks-fast": Build("nohooks-fast", profile="fast", hooks=False),
    # the crate's `std` feature instead of `alloc` (std-only code paths)
    "checked-std": Build("checked-std", features=["std", "x25519", "p256", "p384", "p521"]),
    # neither alloc nor std: the crate's bare no_std configuration (allocating API absent)
    "checked-noalloc": Build("checked-noalloc", features=["x25519", "p256", "p384", "p521"]),
    # panic strategy abort: a panic ends the process (nothing can be caught)
    "panic-abort": Build("panic-abort", rustflags="-C panic=abort"),
    # other optimisation levels and CPU feature sets (thorough build-configuration matrix)
    "opt0": Build("opt0", cargo_env={"CARGO_PROFILE_RELEASE_OPT_LEVEL": "0"}),
    "opt1": Build("opt1", cargo_env={"CARGO_PROFILE_RELEASE_OPT_LEVEL": "1"}),
    "opts": Build("opts", cargo_env={"CARGO_PROFILE_RELEASE_OPT_LEVEL": "s"}),
    "optz": Build("optz", cargo_env={"CARGO_PROFILE_RELEASE_OPT_LEVEL": "z"}),
    "native": Build("native", rustflags="-C target-cpu=native"),
    # mixed configurations: conjunctions of settings select code too (cfg(all(panic = "abort", not(feature = "alloc"))) ...)
    "mix-noalloc-abort-s-native": Build("mix-noalloc-abort-s-native", features=["x25519", "p256", "p384", "p521"],
                                        rustflags="-C panic=abort -C target-cpu=native", cargo_env={"CARGO_PROFILE_RELEASE_OPT_LEVEL": "s"}),
    "mix-std-abort-z": Build("mix-std-abort-z", features=["std", "x25519", "p256", "p384", "p521"], rustflags="-C panic=abort",
                             cargo_env={"CARGO_PROFILE_RELEASE_OPT_LEVEL": "z", "CARGO_PROFILE_RELEASE_DEBUG_ASSERTIONS": "false", "CARGO_PROFILE_RELEASE_OVERFLOW_CHECKS": "false"}),
    # a compiler on which every feature probe of a build script fails (autocfg-style probes compile a snippet and select
    # a fallback when it is rejected): the fallbacks, written for older compilers, must behave like the main path
    "noprobe": Build("noprobe", cargo_env={"RUSTC": "@NOPROBE_SHIM@"}),
    # the cfg that cargo-fuzz / afl / honggfuzz set on the whole dependency graph (some crates weaken checks under it)
    "cfg-fuzzing": Build("cfg-fuzzing", rustflags="--cfg fuzzing --check-cfg cfg(fuzzing)"),
}


def pairwise_builds():
    """A small set of driver builds in which every PAIR of settings of the axes
    features {alloc, std, none} x opt-level {0, 2, 3, s, z} x panic {unwind, abort} x target-cpu {baseline, native} x
    debug-assertions {on, off} occurs together at least once (greedy covering array, deterministic)."""
    import itertools
    axes = [("feat", ["alloc", "std", "none"]), ("opt", ["2", "s", "0", "3", "z"]), ("panic", ["unwind", "abort"]),
            ("cpu", ["base", "native"]), ("dbg", ["on", "off"])]
    need = set()
    for (i, (_, va)), (j, (_, vb)) in itertools.combinations(list(enumerate(axes)), 2):
        for a in va:
            for b in vb:
                need.add((i, a, j, b))
    rows = []
    allrows = list(itertools.product(*[v for _, v in axes]))
    while need:
        best, gain = None, -1
        for r in allrows:
            g = sum(1 for (i, a, j, b) in need if r[i] == a and r[j] == b)
            if g > gain:
                best, gain = r, g
        rows.append(best)
        need = {(i, a, j, b) for (i, a, j, b) in need if not (best[i] == a and best[j] == b)}
    out = []
    kems = ["x25519", "p256", "p384", "p521"]
    for feat, opt, panic, cpu, dbg in rows:
        name = "pw-%s-o%s-%s-%s-d%s" % (feat, opt, panic, cpu, dbg)
        flags = []
        if panic == "abort":
            flags.append("-C panic=abort")
        if cpu == "native":
            flags.append("-C target-cpu=native")
        out.append(Build(name, features=([feat] if feat != "none" else []) + kems, rustflags=" ".join(flags),
                         cargo_env={"CARGO_PROFILE_RELEASE_OPT_LEVEL": opt, "CARGO_PROFILE_RELEASE_DEBUG_ASSERTIONS": "true" if dbg == "on" else "false",
                                    "CARGO_PROFILE_RELEASE_OVERFLOW_CHECKS": "true" if dbg == "on" else "false"}))
    return out


def noprobe_shim():
    """Writes (once per run) a shell script that behaves like rustc except that it rejects the sources a build script
    compiles to probe for compiler features (files in a build script's OUT_DIR, or read from stdin)."""
    d = os.path.join(VERIF, "work", "shims")
    os.makedirs(d, exist_ok=True)
    path = os.path.join(d, "rustc-noprobe")
    real = subprocess.run(["rustup", "which", "rustc"], stdout=subprocess.PIPE, text=True).stdout.strip() or "rustc"
    body = ("#!/bin/sh\nprobe=0\nfor a in \"$@\"; do\n  case \"$a\" in\n    --print*|-vV|--version|-V) exec \"%s\" \"$@\" ;;\n"
            "    */build/*/out/*.rs|-) probe=1 ;;\n  esac\ndone\n"
            "if [ $probe = 1 ]; then echo 'error: feature probe rejected by the verification shim' >&2; exit 1; fi\nexec \"%s\" \"$@\"\n") % (real, real)
    if not os.path.exists(path) or open(path).read() != body:
        with open(path, "w") as fh:
            fh.write(body)
        os.chmod(path, 0o755)
    return path


def build_driver(b, timeout=1800):
    """Builds from REPO's current working tree (cargo's own freshness logic decides what to redo).
    Returns (binary path, seconds).  Raises Inconclusive on failure."""
    cdir = os.path.join(VERIF, "harness")
    prepare_crate(cdir)
    cmd = ["cargo"]
    if b.toolchain:
        cmd.append("+" + b.toolchain)
    cmd += ["build", "--offline", "--target-dir", b.target_dir()]
    cmd += ["--release"] if b.profile == "release" else ["--profile", b.profile]
    if b.target:
        cmd += ["--target", b.target]
    cmd += list(b.zflags)
    if b.no_default:
        cmd += ["--no-default-features"]
    if b.features:
        cmd += ["--features", ",".join(b.features)]
    env = dict(BASE_ENV)
    flags = b.rustflags
    if b.hooks:
        flags = ("--cfg %s " % GUARD) + flags
    env["RUSTFLAGS"] = flags.strip()
    env.update(b.cargo_env)
    if env.get("RUSTC") == "@NOPROBE_SHIM@":
        env["RUSTC"] = noprobe_shim()
    t0 = time.time()
    try:
        p = subprocess.run(cmd, cwd=cdir, env=env, stdout=subprocess.PIPE, stderr=subprocess.STDOUT,
                           timeout=timeout, text=True)
    except subprocess.TimeoutExpired:
        raise Inconclusive("build %s: watchdog after %ds" % (b.name, timeout))
    dt = time.time() - t0
    if p.returncode != 0:
        tail = "\n".join(p.stdout.splitlines()[-40:])
        raise BuildFailed(b.name, tail)
    if not os.path.exists(b.binary()):
        raise Inconclusive("build %s: no binary at %s" % (b.name, b.binary()))
    return b.binary(), dt


class BuildFailed(Inconclusive):
    def __init__(self, name, tail):
        Inconclusive.__init__(self, "build %s failed:\n%s" % (name, tail))
        self.name = name
        self.tail = tail


class DriveResult:
    def __init__(self):
        self.sessions = []
        self.problems = []
        self.rc = None
        self.stderr = ""
        self.wall = 0.0
        self.timed_out = False
        self.events_path = None
        self.sched_path = None

    def all_ops(self):
        for s in self.sessions:
            for o in s.ops:
                yield s, o


class Violation:
    def __init__(self, prop, signature, message, case_text=None, workload=None, detail=None, placement=None):
        self.placement = placement   # (build name, scheduler) of the drive that produced the witness
        self.prop = prop
        self.signature = signature
        self.message = message
        self.case_text = case_text
        self.workload = workload
        self.detail = detail or {}


# a monitor running in a pool worker returns one of these
class MonResult:
    def __init__(self):
        self.violations = []  # (signature, message, sid, upto_op_id, detail)
        self.counts = collections.Counter()
        self.distinct = set()
        self.samples = []
        self.inconclusive = []

    def violation(self, signature, message, sess=None, op=None, detail=None):
        self.violations.append((signature, message, sess.sid if sess else None, op.id if op else None, detail))

    def merge(self, other):
        self.violations += other.violations
        self.counts.update(other.counts)
        self.distinct |= other.distinct
        if len(self.samples) < 12:
            self.samples += other.samples[: 12 - len(self.samples)]
        self.inconclusive += other.inconclusive


_POOL_SESSIONS = None
_POOL_FUNC = None
_POOL_EXTRA = None


def _pool_call(ix):
    return _POOL_FUNC(_POOL_SESSIONS[ix], _POOL_EXTRA)


class Env:
    def __init__(self, prop, tier, seed):
        self.prop = prop
        self.tier = tier
        self.seed = seed
        self.rnd = random.Random("%s/%s" % (prop, seed))
        self.work = os.path.join(VERIF, "work", prop)
        os.makedirs(self.work, exist_ok=True)
        self.violations = []
        self.inconclusive = []
        self.counts = collections.Counter()
        self.distinct = set()
        self.samples = []
        self.notes = []
        self.extra_cov = {}
        self.t0 = time.time()
        self.builds_done = {}
        self.assumptions = []
        self.rule = ""
        self.exhaustive = None
        self.level = "exploration"
        self.session_cases = {}

    # ---- builds / runs ----------------------------------------------------
    def quick(self):
        return self.tier == "quick"

    def pick(self, quick, thorough):
        return quick if self.tier == "quick" else thorough

    def build(self, name):
        if name not in self.builds_done:
            b = BUILDS[name] if isinstance(name, str) else name
            path, dt = build_driver(b)
            self.builds_done[name] = path
            self.counts["build_s:%s" % b.name] += int(dt)
        return self.builds_done[name]

    def drive(self, name, case_text, build="checked", sched="seq", wrapper=None, timeout=None,
              extra_env=None, parse=True):
        """Runs the driver over `case_text`.  Returns a DriveResult.  A watchdog firing is
        reported in the result (timed_out) and recorded as inconclusive by the caller."""
        binary = self.build(build)
        bname = build if isinstance(build, str) else build.name
        self.last_placement = (bname, sched)
        cases = os.path.join(self.work, "%s.%s.case" % (name, bname))
        events = os.path.join(self.work, "%s.%s.%s.ev" % (name, bname, sched.replace(":", "_")))
        with open(cases, "w") as fh:
            fh.write(case_text)
        for p in (events, events + ".sched"):
            if os.path.exists(p):
                os.remove(p)
        cmd = list(wrapper or []) + [binary, "run", cases, events, "--sched", sched]
        env = dict(BASE_ENV)
        if extra_env:
            env.update(extra_env)
        if timeout is None:
            timeout = 1200 if self.quick() else 3600
        res = DriveResult()
        res.events_path = events
        res.sched_path = events + ".sched"
        t0 = time.time()
        try:
            p = subprocess.run(cmd, env=env, stdout=subprocess.PIPE, stderr=subprocess.PIPE,
                               timeout=timeout)
            res.rc = p.returncode
            res.stderr = p.stderr.decode("utf-8", "replace")[-20000:]
        except subprocess.TimeoutExpired as e:
            res.timed_out = True
            res.stderr = (e.stderr or b"").decode("utf-8", "replace")[-4000:]
        res.wall = time.time() - t0
        if parse and os.path.exists(events):
            res.sessions, res.problems = cl.parse_events(events)
        return res

    def require_complete(self, res, what):
        """Turns harness-level trouble into Inconclusive (never a violation)."""
        if res.timed_out:
            raise Inconclusive("%s: watchdog fired" % what)
        probs = list(res.problems)
        for s in res.sessions:
            probs += s.problems
        if probs:
            raise Inconclusive("%s: harness problems: %s" % (what, "; ".join(probs[:5])))

    # ---- monitors ---------------------------------------------------------
    def pmap(self, func, sessions, extra=None, workload=None, procs=None):
        """Runs `func(session, extra) -> MonResult` over sessions in a fork pool and merges."""
        global _POOL_SESSIONS, _POOL_FUNC, _POOL_EXTRA
        total = MonResult()
        if not sessions:
            return total
        procs = procs or NCPU
        by_sid = {s.sid: s for s in sessions}
        if procs == 1 or len(sessions) < 4:
            results = [func(s, extra) for s in sessions]
        else:
            _POOL_SESSIONS, _POOL_FUNC, _POOL_EXTRA = sessions, func, extra
            ctx = multiprocessing.get_context("fork")
            with ctx.Pool(min(procs, len(sessions))) as pool:
                results = pool.map(_pool_call, range(len(sessions)), chunksize=max(1, len(sessions) // (procs * 8)))
            _POOL_SESSIONS = _POOL_FUNC = _POOL_EXTRA = None
        for r in results:
            total.merge(r)
        self.absorb(total, by_sid, workload)
        return total

    def absorb(self, mr, by_sid=None, workload=None):
        for sig, msg, sid, opid, detail in mr.violations:
            case = None
            if by_sid and sid in by_sid:
                case = by_sid[sid].case_text(upto=opid)
            self.violation(sig, msg, case_text=case, workload=workload, detail=detail)
        self.counts.update(mr.counts)
        self.distinct |= mr.distinct
        for s in mr.samples:
            self.sample(s)
        for i in mr.inconclusive:
            self.inconclusive.append(i)

    def violation(self, signature, message, case_text=None, workload=None, detail=None):
        self.violations.append(Violation(self.prop, signature, message, case_text, workload, detail, getattr(self, "last_placement", None)))

    def sample(self, s):
        if len(self.samples) < 12:
            self.samples.append(s)

    def count(self, k, n=1):
        self.counts[k] += n

    def seen(self, key):
        self.distinct.add(key)

    def note(self, s):
        self.notes.append(s)


# ---------------------------------------------------------------------------
# known findings
# ---------------------------------------------------------------------------


def load_known():
    p = os.path.join(VERIF, "known_findings.json")
    if not os.path.exists(p):
        return []
    with open(p) as fh:
        return json.load(fh).get("findings", [])


def finish(env, module):
    """Prints verdict lines, writes evidence and replay files, returns the exit code."""
    known = load_known()
    open_known = {k["signature"]: k for k in known if k.get("status") == "open" and k.get("property") == env.prop}
    real = []
    known_hits = collections.OrderedDict()
    for v in env.violations:
        if v.signature in open_known:
            known_hits.setdefault(v.signature, []).append(v)
        else:
            real.append(v)
    for sig, vs in known_hits.items():
        print("KNOWN-FINDING: property=%s %s (%d occurrence(s) this run; signature %s)" % (
            env.prop, open_known[sig].get("what", vs[0].message), len(vs), sig))
    os.makedirs(os.path.join(VERIF, "replays"), exist_ok=True)
    os.makedirs(os.path.join(VERIF, "evidence"), exist_ok=True)
    # dedupe real violations by signature for printing; keep the first witness of each
    seen = collections.OrderedDict()
    for v in real:
        seen.setdefault(v.signature, []).append(v)
    n = 0
    replay_paths = []
    for sig, vs in seen.items():
        v = vs[0]
        path = os.path.join(VERIF, "replays", "%s-%d-%d.case" % (env.prop, env.seed, n))
        with open(path, "w") as fh:
            pl = v.placement if v.placement and v.placement[0] in BUILDS else None
            fh.write("# property=%s workload=%s tier=%s seed=%d%s\n" % (env.prop, v.workload or "-", env.tier, env.seed,
                                                                     " build=%s sched=%s" % pl if pl else ""))
            fh.write("# signature=%s\n" % sig)
            for line in v.message.splitlines():
                fh.write("# %s\n" % line)
            if v.detail:
                fh.write("# detail=%s\n" % json.dumps(v.detail, sort_keys=True))
            fh.write("# occurrences=%d\n" % len(vs))
            if v.case_text:
                fh.write(v.case_text)
        replay_paths.append(path)
        print("VIOLATION property=%s replay=%s" % (env.prop, path))
        print("  signature=%s occurrences=%d" % (sig, len(vs)))
        print("  " + v.message.replace("\n", "\n  "))
        n += 1
    wall = time.time() - env.t0
    verdict = "violated" if real else ("inconclusive" if env.inconclusive else "held")
    evaluations = int(env.counts.get("evaluations", 0))
    cov = {
        "evaluations": evaluations,
        "distinct_nontrivial": len(env.distinct),
        "rule": env.rule or getattr(module, "RULE", ""),
        "samples": env.samples[:12],
        "counters": {k: v for k, v in sorted(env.counts.items())},
        "verdict": verdict,
        "known_findings_observed": {k: len(v) for k, v in known_hits.items()},
        "notes": env.notes,
    }
    if env.exhaustive is not None:
        cov["exhaustive"] = bool(env.exhaustive)
    cov.update(env.extra_cov)
    ev = {
        "property_id": env.prop,
        "tier": env.tier,
        "seed": env.seed,
        "level": env.level,
        "coverage": cov,
        "assumptions": env.assumptions or getattr(module, "ASSUMPTIONS", []),
        "wall_s": round(wall, 2),
        "violations": len(seen),
    }
    if env.inconclusive:
        ev["coverage"]["inconclusive_reasons"] = env.inconclusive[:10]
    with open(os.path.join(VERIF, "evidence", "%s.json" % env.prop), "w") as fh:
        json.dump(ev, fh, indent=1, sort_keys=True, default=str)
        fh.write("\n")
    if real:
        return 1
    if env.inconclusive:
        for r in env.inconclusive[:10]:
            print("INCONCLUSIVE property=%s reason=%s" % (env.prop, r.replace("\n", " | ")[:2000]))
        return 2
    if evaluations < 1 or len(env.distinct) < 2:
        print("INCONCLUSIVE property=%s reason=the run observed nothing (evaluations=%d distinct=%d)" % (
            env.prop, evaluations, len(env.distinct)))
        return 2
    print("HELD property=%s tier=%s seed=%d evaluations=%d distinct=%d wall=%.1fs" % (
        env.prop, env.tier, env.seed, evaluations, len(env.distinct), wall))
    return 0


def run_miri(env, name, case_text, target=None, sched="seq", seed=0, timeout=5400, features=None):
    """Interprets the driver under Miri, optionally for another target triple (32-bit, big-endian).
    Returns (sessions, note); sessions is None when Miri could not run (never a verdict)."""
    import subprocess as sp
    cdir = os.path.join(VERIF, "harness")
    prepare_crate(cdir)
    case = os.path.join(env.work, "%s.miri.case" % name)
    ev = os.path.join(env.work, "%s.miri.ev" % name)
    with open(case, "w") as fh:
        fh.write(case_text)
    if os.path.exists(ev):
        os.remove(ev)
    e = dict(BASE_ENV)
    e["RUSTFLAGS"] = "--cfg %s" % GUARD
    e["MIRIFLAGS"] = "-Zmiri-disable-isolation -Zmiri-seed=%d" % seed
    e["XDG_CACHE_HOME"] = os.path.join(VERIF, "target", "miri-cache")
    cmd = ["cargo", "+nightly", "miri", "run", "--offline", "--target-dir", os.path.join(VERIF, "target", "miri")]
    if target:
        cmd += ["--target", target]
    if features is not None:
        cmd += ["--no-default-features", "--features", ",".join(features)]
    cmd += ["--", "run", case, ev, "--sched", sched]
    try:
        p = sp.run(cmd, cwd=cdir, env=e, stdout=sp.PIPE, stderr=sp.PIPE, timeout=timeout)
    except sp.TimeoutExpired:
        return None, "watchdog"
    err = p.stderr.decode("utf-8", "replace")
    if "Undefined Behavior" in err or "Data race detected" in err:
        env.violation("%s:miri:%s" % (env.prop, target or "host"), "Miri (%s) reported undefined behaviour / a data race:\n%s" % (target or "host", err[-2500:]), workload=name)
        return None, "report"
    if p.returncode != 0 or not os.path.exists(ev):
        return None, "failed to run (rc %s): %s" % (p.returncode, err[-300:])
    sessions, problems = cl.parse_events(ev)
    return sessions, "ok"


def generic_replay(env, module, path, build="checked"):
    """Re-drives the case text of a replay file and re-runs the monitor of its workload."""
    with open(path) as fh:
        lines = fh.read().splitlines()
    head = dict(p.split("=", 1) for p in lines[0][1:].split() if "=" in p)
    wl = head.get("workload", "-")
    text = "\n".join(l for l in lines if not l.startswith("#")) + "\n"
    mon = module.MONITORS.get(wl)
    if mon is None:
        raise Inconclusive("replay: workload %r has no session monitor" % wl)
    # the witness is replayed under the build and scheduler it was found with (a small-stack or release-only effect
    # does not show on the default build)
    if head.get("build") in BUILDS:
        build = head["build"]
    sched = head.get("sched", "seq")
    if not sched.startswith(("seq", "stack:")):
        sched = "seq"
    res = env.drive("replay", text, build=build, sched=sched)
    if sched.startswith("stack:") and res.rc not in (0, None) and "overflowed its stack" in (res.stderr or ""):
        env.violation("%s:replay:stack_overflow" % env.prop, "replayed on a %s KiB-stack thread: the process died with a stack overflow" % sched.split(":")[1], case_text=text, workload=wl)
        return
    env.require_complete(res, "replay")
    env.pmap(mon, res.sessions, extra=getattr(module, "REPLAY_EXTRA", None), workload=wl, procs=1)
    env.count("evaluations", sum(len(s.ops) for s in res.sessions))
    env.seen("replay")
    env.seen("replay2")
