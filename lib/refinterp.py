"""Reference interpreter: replays the operations of a recorded session against the independent
RFC 9180 model, on exactly the argument bytes the real code received, and says what the RFC
defines as the result of each call.

expect(op) returns
   None                      - the RFC defines no output for this call (excluded from comparison)
   {"ok": {field: bytes}}    - byte-exact expected result fields
   {"err": "Name[@stage]"}   - expected error
and keeps reference contexts in step with the real ones."""
from ref import curves
from ref import hpke_ref as R

from . import caselang as cl


def errstr(e, stage=""):
    s = e.kind
    if e.kind == "IncorrectInputLength":
        s += ":%d:%d" % (e.payload[0], e.payload[1])
    return s + ("@" + stage if stage else "")


class Undefined(Exception):
    """RFC 9180 defines no output for these inputs"""


class RefSession:
    def __init__(self, ids):
        self.ids = ids
        self.suite = R.suite(*ids)
        self.kem = self.suite.kem
        self.ctx = {}  # name -> R.Context
        self.role = {}
        self.undefined_ctx = set()

    # -- argument stages (mirror the driver's order of deserialization) --------
    def _pk(self, b, stage):
        try:
            return self.kem.deserialize_public(b)
        except R.RefError as e:
            raise StageError(errstr(e, stage))

    def _sk(self, b, stage):
        try:
            return self.kem.deserialize_private(b)
        except R.RefError as e:
            raise StageError(errstr(e, stage))

    def _mode_common(self, op):
        mode = int(op.args.get("mode", "0"))
        psk = op.b.get("psk", b"") or b""
        pskid = op.b.get("pskid", b"") or b""
        return mode, psk, pskid

    def _bundle(self, mode, psk, pskid):
        if mode in (1, 3):
            if bool(psk) != bool(pskid):
                raise StageError("InvalidPskBundle@bundle")

    def _mode_s(self, op):
        mode, psk, pskid = self._mode_common(op)
        skS = pkS = None
        # driver order: Psk -> bundle ; Auth -> sks, pks ; AuthPsk -> sks, pks, bundle
        if mode in (2, 3):
            skS = self._sk(op.b.get("sks", b""), "sks")
            pkS = self._pk(op.b.get("pks", b""), "pks")
        self._bundle(mode, psk, pskid)
        if mode in (0, 2):
            psk = pskid = b""
        return mode, psk, pskid, skS, pkS

    def _mode_r(self, op):
        mode, psk, pskid = self._mode_common(op)
        pkS = None
        if mode in (2, 3):
            pkS = self._pk(op.b.get("pks", b""), "pks")
        self._bundle(mode, psk, pskid)
        if mode in (0, 2):
            psk = pskid = b""
        return mode, psk, pskid, pkS

    # -- operations ---------------------------------------------------------------
    def expect(self, op):
        if op.ret is not None and "skip" in op.ret:
            # the driver did not make this call (API form not compiled into this build): the real context did not move,
            # so the reference context must not move either
            return None
        try:
            return self._expect(op)
        except StageError as e:
            return {"err": e.args[0]}
        except Undefined:
            return None

    def _expect(self, op):
        o = op.op
        k = self.kem
        if o == "sizes":
            return {"ok": {}, "scalars": {"npk": k.npk, "nsk": k.nsk, "nenc": k.nenc, "nsecret": k.nsecret,
                                          "nt": self.suite.nt}}
        if o == "derive_keypair":
            sk, pk = k.derive_key_pair(op.b["ikm"])
            pkb = k.serialize_public(pk)
            return {"ok": {"sk": k.serialize_private(sk), "pk": pkb, "pk2": pkb}, "clamp": ["sk"] if k.curve is None else []}
        if o == "derive_toy":
            from ref import toyhash
            st, skb, counter, seen = toyhash.derive(k.kem_id, op.b["ikm"], op.b["table"])
            if st != "ok":
                # RFC 9180 7.1.3: DeriveKeyPairError after 256 rejected candidates; the crate documents a panic
                return {"panic_or_err": True}
            sk = skb if k.curve is None else int.from_bytes(skb, "big")
            pkb = k.serialize_public(k.pk(sk))
            return {"ok": {"sk": skb, "pk": pkb, "pk2": pkb}, "clamp": ["sk"] if k.curve is None else []}
        if o == "gen_keypair":
            rng = op.b["rng"]
            if len(rng) < k.nsk:
                raise Undefined()
            sk, pk = k.derive_key_pair(rng[: k.nsk])
            return {"ok": {"sk": k.serialize_private(sk), "pk": k.serialize_public(pk)},
                    "scalars": {"rngd": "fill:%d" % k.nsk, "over": 0}, "clamp": ["sk"] if k.curve is None else []}
        if o == "sk_to_pk":
            sk = self._sk(op.b["sk"], "sk")
            return {"ok": {"pk": k.serialize_public(k.pk(sk))}}
        if o == "encap":
            pkR = self._pk(op.b["pkr"], "pkr")
            skS = pkS = None
            if "sks" in op.b and "pks" in op.b:
                skS = self._sk(op.b["sks"], "sks")
                pkS = self._pk(op.b["pks"], "pks")
            rng = op.b["rng"]
            if len(rng) < k.nsk:
                raise Undefined()
            try:
                ss, enc = k.encap(pkR, rng[: k.nsk], skS, pkS)
            except R.RefError as e:
                return {"err": errstr(e), "scalars": {"rngd": "fill:%d" % k.nsk}}
            return {"ok": {"ss": ss, "enc": enc}, "scalars": {"rngd": "fill:%d" % k.nsk, "over": 0}}
        if o == "decap":
            skR = self._sk(op.b["skr"], "skr")
            pkS = self._pk(op.b["pks"], "pks") if "pks" in op.b else None
            self._pk(op.b["enc"], "enc")
            try:
                ss = k.decap(op.b["enc"], skR, pkS)
            except R.RefError as e:
                return {"err": errstr(e)}
            return {"ok": {"ss": ss}}
        if o == "setup_s":
            mode, psk, pskid, skS, pkS = self._mode_s(op)
            pkR = self._pk(op.b["pkr"], "pkr")
            rng = op.b["rng"]
            name = op.args.get("out", "")
            if len(rng) < k.nsk:
                raise Undefined()
            try:
                enc, ctx, ss = self.suite.setup_s(mode, pkR, op.b["info"], rng[: k.nsk], psk, pskid, skS, pkS)
            except R.RefError as e:
                return {"err": errstr(e), "scalars": {"rngd": "fill:%d" % k.nsk}}
            self.ctx[name] = ctx
            self.role[name] = "s"
            res = {"ok": {"enc": enc, "bn": ctx.base_nonce, "es": ctx.exporter_secret},
                   "scalars": {"rngd": "fill:%d" % k.nsk, "over": 0}, "optional": ["bn", "es"]}
            if mode in (1, 3) and not psk:
                # VerifyPSKInputs raises in the RFC; the crate allows an empty bundle. No defined output.
                self.undefined_ctx.add(name)
                return None
            return res
        if o == "setup_r":
            mode, psk, pskid, pkS = self._mode_r(op)
            skR = self._sk(op.b["skr"], "skr")
            self._pk(op.b["enc"], "enc")
            name = op.args.get("out", "")
            try:
                ctx, ss = self.suite.setup_r(mode, op.b["enc"], skR, op.b["info"], psk, pskid, pkS)
            except R.RefError as e:
                return {"err": errstr(e)}
            self.ctx[name] = ctx
            self.role[name] = "r"
            if mode in (1, 3) and not psk:
                self.undefined_ctx.add(name)
                return None
            return {"ok": {"bn": ctx.base_nonce, "es": ctx.exporter_secret}, "optional": ["bn", "es"]}
        if o == "seal":
            name = op.args["ctx"]
            ctx = self.ctx.get(name)
            if ctx is None or name in self.undefined_ctx:
                # keep a shadow context in step if we have one
                if ctx is not None and self.suite.aead_id != 0xFFFF:
                    try:
                        ctx.seal(op.b["aad"], op.b["pt"])
                    except R.RefError:
                        pass
                raise Undefined()
            if self.suite.aead_id == 0xFFFF:
                return {"panic": True}
            try:
                full = ctx.seal(op.b["aad"], op.b["pt"])
            except R.RefError as e:
                return {"err": errstr(e)}
            nt = self.suite.nt
            if op.args.get("api") == "inplace":
                return {"ok": {"ct": full[: len(full) - nt], "tag": full[len(full) - nt:]}}
            return {"ok": {"full": full}}
        if o == "open":
            name = op.args["ctx"]
            ctx = self.ctx.get(name)
            if ctx is None:
                raise Undefined()
            if self.suite.aead_id == 0xFFFF:
                return {"panic": True}
            if op.args.get("api") == "inplace":
                tag = op.b.get("tag", b"")
                if len(tag) != self.suite.nt:
                    return {"err": "IncorrectInputLength:%d:%d@tag" % (self.suite.nt, len(tag))}
                full = op.b["ct"] + tag
            else:
                full = op.b["ct"]
            try:
                pt = ctx.open(op.b["aad"], full)
            except R.RefError as e:
                if name in self.undefined_ctx:
                    raise Undefined()
                return {"err": errstr(e)}
            if name in self.undefined_ctx:
                raise Undefined()
            return {"ok": {"pt": pt}}
        if o == "export":
            name = op.args["ctx"]
            ctx = self.ctx.get(name)
            if ctx is None or name in self.undefined_ctx:
                raise Undefined()
            try:
                out = ctx.export(op.b["exctx"], int(op.args["len"]))
            except R.RefError as e:
                return {"err": errstr(e)}
            return {"ok": {"out": out}}
        if o == "set_seq":
            name = op.args["ctx"]
            ctx = self.ctx.get(name)
            if ctx is not None:
                ctx.seq = int(op.args["seq"])
                ctx.dead = False
            raise Undefined()
        if o == "ss_seal":
            mode, psk, pskid, skS, pkS = self._mode_s(op)
            pkR = self._pk(op.b["pkr"], "pkr")
            rng = op.b["rng"]
            if len(rng) < k.nsk or (mode in (1, 3) and not psk):
                raise Undefined()
            try:
                enc, ctx, ss = self.suite.setup_s(mode, pkR, op.b["info"], rng[: k.nsk], psk, pskid, skS, pkS)
            except R.RefError as e:
                return {"err": errstr(e)}
            if self.suite.aead_id == 0xFFFF:
                return {"panic": True}
            full = ctx.seal(op.b["aad"], op.b["pt"])
            nt = self.suite.nt
            return {"ok": {"enc": enc, "ct": full[: len(full) - nt], "tag": full[len(full) - nt:]},
                    "scalars": {"rngd": "fill:%d" % k.nsk, "over": 0}}
        if o == "ss_open":
            mode, psk, pskid, pkS = self._mode_r(op)
            skR = self._sk(op.b["skr"], "skr")
            self._pk(op.b["enc"], "enc")
            inplace = op.args.get("api") == "inplace"
            if inplace:
                tag = op.b.get("tag", b"")
                if len(tag) != self.suite.nt:
                    return {"err": "IncorrectInputLength:%d:%d@tag" % (self.suite.nt, len(tag))}
            if mode in (1, 3) and not psk:
                raise Undefined()
            try:
                ctx, ss = self.suite.setup_r(mode, op.b["enc"], skR, op.b["info"], psk, pskid, pkS)
            except R.RefError as e:
                return {"err": errstr(e)}
            if self.suite.aead_id == 0xFFFF:
                return {"panic": True}
            full = op.b["ct"] + (op.b.get("tag", b"") if inplace else b"")
            try:
                pt = ctx.open(op.b["aad"], full)
            except R.RefError as e:
                return {"err": errstr(e)}
            return {"ok": {"pt": pt}}
        raise Undefined()


class StageError(Exception):
    pass


def compare(op, exp):
    """Returns a list of human-readable mismatches between what the real code returned (op.ret)
    and the reference expectation `exp` (never None here)."""
    out = []
    if op.ret is None:
        return ["call never returned"]
    if "skip" in op.ret:
        return []
    if "panic_or_err" in exp:
        if "ok" in op.ret:
            out.append("expected DeriveKeyPairError (all 256 candidates out of range), got %s" % op.outcome())
        return out
    if "panic" in exp:
        if "panic" not in op.ret:
            out.append("expected a panic (export-only context), got %s" % op.outcome())
        return out
    if "err" in exp:
        got = op.ret.get("err")
        if got != exp["err"]:
            out.append("expected err=%s, got %s" % (exp["err"], op.outcome()))
    else:
        if "ok" not in op.ret:
            out.append("expected success, got %s" % op.outcome())
            return out
        for f, want in exp["ok"].items():
            if f == "bn" and not want:
                # export-only suites: Nn = 0 in the RFC; whatever placeholder the crate keeps
                # internally is not observable on the wire and not compared
                continue
            if f not in op.ret:
                if f in exp.get("optional", ()):
                    continue
                out.append("result field %s missing" % f)
                continue
            got = op.ret[f]
            wenc = cl.outenc(want)
            if f in exp.get("clamp", ()):
                g = cl.unhex(got)
                if len(g) == 32 and curves.clamp(g) == curves.clamp(want):
                    continue
            if got != wenc:
                out.append("%s: got %s, RFC 9180 gives %s" % (f, _short(got), _short(wenc)))
    for f, want in exp.get("scalars", {}).items():
        if f in op.ret and op.ret[f] != str(want):
            out.append("%s: got %s, expected %s" % (f, op.ret[f], want))
    return out


def _short(s):
    return s if len(s) <= 96 else s[:64] + "…(%d hex chars)" % len(s)
