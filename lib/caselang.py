"""The case/event language, Python side.  Mirrors harness/src/lang.rs exactly: byte-string
encodings, transforms, CRC fingerprints, and the register file that lets later operations refer
to earlier results."""
import hashlib
import zlib

OUT_MAX = 300000  # must equal the driver threshold in lang::out
MASK = (1 << 64) - 1


def hexs(b):
    return b.hex() if b else "-"


def outenc(b):
    if len(b) <= OUT_MAX:
        return hexs(b)
    return "#%s:%d" % (hashlib.sha256(b).hexdigest(), len(b))


def unhex(s):
    return b"" if s == "-" else bytes.fromhex(s)


class SplitMix:
    def __init__(self, seed):
        self.s = seed & MASK

    def next(self):
        self.s = (self.s + 0x9E3779B97F4A7C15) & MASK
        z = self.s
        z = ((z ^ (z >> 30)) * 0xBF58476D1CE4E5B9) & MASK
        z = ((z ^ (z >> 27)) * 0x94D049BB133111EB) & MASK
        return z ^ (z >> 31)


def prand(seed, n):
    g = SplitMix(seed)
    out = bytearray()
    while len(out) < n:
        out += g.next().to_bytes(8, "little")
    return bytes(out[:n])


class Opaque:
    """A value the log only carries as digest+length (too long to print)."""

    def __init__(self, token):
        self.token = token
        self.length = int(token.rsplit(":", 1)[1])

    def __len__(self):
        return self.length


def decode_out(s):
    """Decode a value printed by the driver with lang::out."""
    if s.startswith("#"):
        return Opaque(s)
    return unhex(s)


def apply_transforms(v, parts, regs=None):
    v = bytearray(v)
    for t in parts:
        f = t.split(":")
        op = f[0]
        if op == "flip":
            bit = int(f[1])
            if bit // 8 >= len(v):
                raise ValueError("flip out of range")
            v[bit // 8] ^= 1 << (bit % 8)
        elif op == "trunc":
            del v[int(f[1]) :]
        elif op == "tail":
            n = int(f[1])
            v = v[max(0, len(v) - n) :]
        elif op == "skip":
            v = v[min(int(f[1]), len(v)) :]
        elif op == "app":
            v += unhex(t.split(":", 1)[1])
        elif op == "pre":
            v = bytearray(unhex(t.split(":", 1)[1])) + v
        elif op == "set":
            i = int(f[1])
            b = unhex(f[2])
            if i >= len(v) or len(b) != 1:
                raise ValueError("set out of range")
            v[i] = b[0]
        elif op in ("rotl", "rotr"):
            if v:
                k = int(f[1]) % len(v)
                if op == "rotr":
                    k = (len(v) - k) % len(v)
                v = v[k:] + v[:k]
        elif op == "rev":
            v.reverse()
        elif op in ("catreg", "prereg"):
            other = regs[t.split(":", 1)[1]]
            if isinstance(other, Opaque):
                raise ValueError("opaque register in transform")
            v = v + bytearray(other) if op == "catreg" else bytearray(other) + v
        else:
            raise ValueError("unknown transform " + op)
    return bytes(v)


def decode_bytes(arg, regs):
    parts = arg.split("^")
    base = parts[0]
    if base.startswith("$"):
        v = regs[base[1:]]
        if isinstance(v, Opaque):
            if len(parts) > 1:
                raise ValueError("transform of opaque register")
            return v
    elif base.startswith("@r:"):
        _, seed, n = base.split(":")
        v = prand(int(seed), int(n))
    elif base.startswith("@z:"):
        _, b, n = base.split(":")
        v = unhex(b)[:1] * int(n)
    else:
        v = unhex(base)
    return apply_transforms(v, parts[1:], regs) if len(parts) > 1 else v


BYTE_ARGS = {
    "ikm", "rng", "sk", "pk", "bytes", "psk", "pskid", "pkr", "sks", "pks", "skr", "enc", "info",
    "pt", "aad", "ct", "tag", "exctx", "key", "bn", "es", "pks2", "pks3", "pks4", "table",
}

# ---------------------------------------------------------------------------
# writing cases
# ---------------------------------------------------------------------------


def argenc(v):
    if isinstance(v, (bytes, bytearray)):
        return hexs(bytes(v))
    if isinstance(v, bool):
        return "1" if v else "0"
    return str(v)


class SessionW:
    def __init__(self, sid, kem, kdf, aead):
        self.sid = str(sid)
        self.ids = (kem, kdf, aead)
        self.lines = ["S %s kem=%04x kdf=%04x aead=%04x" % (self.sid, kem, kdf, aead)]
        self.n = 0
        self.meta = {}

    def call(self, op, **args):
        cid = "%s.%d" % (self.sid, self.n)
        self.n += 1
        parts = ["C", cid, op]
        for k, v in args.items():
            if v is None:
                continue
            parts.append("%s=%s" % (k, argenc(v)))
        self.lines.append(" ".join(parts))
        return cid

    def text(self):
        return "\n".join(self.lines) + "\nE %s\n" % self.sid


class CaseW:
    def __init__(self):
        self.sessions = []

    def session(self, kem, kdf, aead, sid=None):
        s = SessionW(len(self.sessions) if sid is None else sid, kem, kdf, aead)
        self.sessions.append(s)
        return s

    def text(self):
        return "".join(s.text() for s in self.sessions)

    def nops(self):
        return sum(s.n for s in self.sessions)


# ---------------------------------------------------------------------------
# reading events
# ---------------------------------------------------------------------------


class Op:
    __slots__ = ("id", "op", "args", "ret", "extra", "b", "raw", "afp_ok", "idx", "blocked")

    def __init__(self, cid, op, args, raw):
        self.id = cid
        self.op = op
        self.args = args  # str -> str (as written)
        self.ret = None  # str -> str, None if the call never returned
        self.extra = []  # list of dicts from L lines
        self.b = {}  # resolved byte args
        self.raw = raw
        self.afp_ok = None
        self.idx = 0
        self.blocked = None  # name of the failed producer this call depended on, if any

    # result helpers
    def ok(self):
        return self.ret is not None and "ok" in self.ret

    def err(self):
        return None if self.ret is None else self.ret.get("err")

    def panic(self):
        return None if self.ret is None else self.ret.get("panic")

    def skipped(self):
        return None if self.ret is None else self.ret.get("skip")

    def out(self, k):
        """A byte-valued result field, decoded (bytes or Opaque), or None"""
        if self.ret is None or k not in self.ret:
            return None
        return decode_out(self.ret[k])

    def outcome(self):
        if self.ret is None:
            return "NORETURN"
        if "ok" in self.ret:
            return "ok"
        for k in ("err", "panic", "skip", "caseerr"):
            if k in self.ret:
                return "%s=%s" % (k, self.ret[k])
        return "?"


class SessionLog:
    def __init__(self, sid, ids, header):
        self.sid = sid
        self.ids = ids
        self.header = header
        self.ops = []  # operations the monitors judge
        self.all_ops = []  # including calls that could not run because an earlier call they depend on failed
        self.ended = False
        self.problems = []  # harness-level problems (afp mismatch, caseerr, ...)

    def nt(self):
        return {0xFFFF: 0, 0x7778: 32, 0x777A: 20}.get(self.ids[2], 16)

    def case_text(self, upto=None):
        lines = [self.header]
        for o in self.all_ops or self.ops:
            lines.append(o.raw)
            if upto is not None and o.id == upto:
                break
        return "\n".join(lines) + "\nE %s\n" % self.sid


def _kv(fields):
    d = {}
    for f in fields:
        k, _, v = f.partition("=")
        d[k] = v
    return d


def _afp(op):
    crc = 0
    for k, v in op.args.items():
        if k in BYTE_ARGS:
            b = op.b.get(k)
            if isinstance(b, Opaque):
                return None
            crc = zlib.crc32(k.encode(), crc)
            crc = zlib.crc32(len(b).to_bytes(8, "little"), crc)
            crc = zlib.crc32(b, crc)
    return "%08x" % crc


def _track(regs, sess, op):
    """Mirror of the driver's register updates."""
    r = op.ret
    name = op.args.get("out")
    if not name or r is None or "ok" not in r:
        return

    def put(field, key=None):
        key = key or field
        if key in r:
            regs["%s.%s" % (name, field)] = decode_out(r[key])

    o = op.op
    if o in ("derive_keypair", "gen_keypair"):
        put("sk")
        put("pk")
    elif o == "sk_to_pk":
        put("pk")
    elif o == "encap":
        put("ss")
        put("enc")
    elif o == "decap":
        put("ss")
    elif o == "setup_s":
        put("enc")
        put("bn")
        put("es")
    elif o == "setup_r":
        put("bn")
        put("es")
    elif o in ("seal", "ss_seal"):
        nt = sess.nt()
        if "full" in r:
            full = decode_out(r["full"])
            regs[name + ".full"] = full
            if not isinstance(full, Opaque):
                k = max(0, len(full) - nt)
                regs[name + ".ct"] = full[:k]
                regs[name + ".tag"] = full[k:]
        else:
            ct = decode_out(r.get("ct", "-"))
            tag = decode_out(r.get("tag", "-"))
            regs[name + ".ct"] = ct
            regs[name + ".tag"] = tag
            if not isinstance(ct, Opaque):
                regs[name + ".full"] = ct + tag
        if o == "ss_seal":
            put("enc")
    elif o in ("open", "ss_open"):
        put("pt")
    elif o == "export":
        put("out")


def parse_events(path):
    """Returns (sessions, problems).  Every C line must be followed by its R line (or be the
    last thing the process wrote)."""
    sessions = []
    problems = []
    cur = None
    regs = {}
    failed_producers = set()
    live_ctx = set()
    pending = None
    with open(path, "r") as fh:
        for line in fh:
            line = line.rstrip("\n")
            if not line:
                continue
            tag = line[0]
            if tag == "S":
                f = line.split()
                kv = _kv(f[2:])
                cur = SessionLog(f[1], (int(kv["kem"], 16), int(kv["kdf"], 16), int(kv["aead"], 16)), line)
                sessions.append(cur)
                regs = {}
                failed_producers = set()
                live_ctx = set()
                pending = None
            elif tag == "C":
                f = line.split()
                op = Op(f[1], f[2], _kv(f[3:]), line)
                cur.all_ops.append(op)
                for k, v in op.args.items():
                    if k in BYTE_ARGS:
                        try:
                            op.b[k] = decode_bytes(v, regs)
                        except Exception as e:  # unresolved in the checker
                            op.b[k] = None
                            prod = v[1:].split("^")[0].split(".")[0] if v.startswith("$") else None
                            if prod is not None and prod in failed_producers:
                                op.blocked = prod
                            else:
                                cur.problems.append("%s: cannot resolve %s=%s (%r)" % (op.id, k, v[:40], e))
                ctxname = op.args.get("ctx")
                if op.blocked is None and ctxname is not None and ctxname in failed_producers and ctxname not in live_ctx:
                    op.blocked = ctxname
                if op.blocked is None:
                    op.idx = len(cur.ops)
                    cur.ops.append(op)
                pending = op
            elif tag == "L":
                f = line.split()
                if pending is not None:
                    pending.extra.append(_kv(f[2:]))
            elif tag == "R":
                f = line.split()
                if pending is None or pending.id != f[1]:
                    problems.append("R without matching C: %s" % line[:80])
                    continue
                pending.ret = _kv(f[2:])
                outn = pending.args.get("out")
                if outn:
                    if "ok" in pending.ret:
                        failed_producers.discard(outn)
                        if pending.op in ("setup_s", "setup_r", "raw_s", "raw_r"):
                            live_ctx.add(outn)
                    else:
                        failed_producers.add(outn)
                        live_ctx.discard(outn)
                if pending.op == "drop" and "ok" in pending.ret:
                    live_ctx.discard(pending.args.get("ctx"))
                if "caseerr" in pending.ret and pending.blocked is None:
                    cur.problems.append("%s: caseerr %s" % (pending.id, pending.ret["caseerr"]))
                if pending.blocked is None and None not in pending.b.values():
                    want = _afp(pending)
                    got = pending.ret.get("afp")
                    pending.afp_ok = want is None or want == got
                    if not pending.afp_ok:
                        cur.problems.append("%s: argument fingerprint mismatch (driver %s, checker %s)" % (pending.id, got, want))
                _track(regs, cur, pending)
                pending = None
            elif tag == "E":
                if cur is not None:
                    cur.ended = True
            else:
                problems.append("unknown record: %s" % line[:80])
    return sessions, problems
