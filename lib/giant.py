"""Strings of 2^32 bytes and more in the role of info / psk / psk_id / exporter context / ikm (driver op `giant_str`).
The driver fills the string with a fixed sparse pattern (every 4093rd byte set); `pattern()` is the same in Python.
Used by the thorough tiers of C02 (values against the reference), C07 (binding: one changed byte far beyond 2^32 or
near the front must change the context) and C11 (export under a giant exporter context)."""
from ref import hpke_ref as R

M64 = (1 << 64) - 1
N = (1 << 32) + 5
SHORT_CTX = b"giant-exporter-context"


def pattern(n):
    b = bytearray(n)
    b[0::4093] = bytes((((i * 0x9E3779B97F4A7C15) & M64) >> 56) for i in range(0, n, 4093))
    return b


def build(cw, g, gen, kinds, suites, n=N):
    """one session per (suite, kind), two calls each: a byte changed 3 from the end, and byte 100 changed"""
    for si, (kem, kdf, aead) in enumerate(suites):
        for which in kinds:
            s = cw.session(kem, kdf, aead, sid="G%d%s" % (si, which))
            gen.add_keys(s, g, kem, "kR")
            for flip in (n - 3, 100):
                s.call("giant_str", which=which, len=n, flip=flip, pkr="$kR.pk", skr="$kR.sk", rng=g.raw(gen.nsk(kem)).hex() + "aa" * 8,
                       psk=g.rbytes(32), pskid="6964")


def expected(sess, op, big=None):
    """RFC 9180 values for one giant_str call: dict with enc/s_exp (info, psk, pskid, exctx) or sk/pk (ikm)"""
    kem, kdf, aead = sess.ids
    n = int(op.args["len"])
    big = big if big is not None else pattern(n)
    which = op.args["which"]
    k = R.KEMS[kem]
    if which == "ikm":
        sk, pk = k.derive_key_pair(bytes(big))
        return {"sk": k.serialize_private(sk), "pk": k.serialize_public(pk)}
    su = R.suite(kem, kdf, aead)
    pkR = k.deserialize_public(op.b["pkr"])
    mode, psk, pskid, info = 0, b"", b"", b"giant"
    if which == "info":
        info = bytes(big)
    elif which == "psk":
        mode, psk, pskid = 1, bytes(big), op.b["pskid"]
    elif which == "pskid":
        mode, psk, pskid = 1, op.b["psk"], bytes(big)
    enc, ctx, _ = su.setup_s(mode, pkR, info, op.b["rng"][: k.nsk], psk, pskid)
    ectx = bytes(big) if which == "exctx" else SHORT_CTX
    return {"enc": enc, "s_exp": ctx.export(ectx, 32), "es": ctx.exporter_secret}


def run(env, prop, kinds, suites, judge):
    """builds, drives (checked build) and judges sequentially; `judge(env, sess, op, big)` records violations"""
    from lib import caselang as cl
    from lib import gen
    g = gen.G(env.rnd)
    cw = cl.CaseW()
    build(cw, g, gen, kinds, suites)
    res = env.drive("giant-strings", cw.text(), timeout=14400)
    env.require_complete(res, "giant-strings")
    big = pattern(N)
    n = 0
    for sess in res.sessions:
        for op in sess.ops:
            if op.op != "giant_str":
                continue
            if op.ret is None or "ok" not in op.ret:
                env.violation("%s:giant:%s:%s" % (prop, op.args["which"], op.outcome()),
                              "a %s of 2^32+5 bytes: %s" % (op.args["which"], op.outcome()), case_text=sess.case_text(op.id), workload="giant-strings")
                continue
            judge(env, sess, op, big)
            env.count("evaluations", 1)
            env.seen((sess.ids, "giant", op.args["which"], op.args["flip"]))
            n += 1
    gs = env.extra_cov.setdefault("giant_strings", {"bytes": N, "roles": [], "calls_judged": 0})
    gs["roles"] = sorted(set(gs["roles"]) | set(kinds))
    gs["calls_judged"] += n
