"""What the compiled crate exposes, observed by running rustdoc (nightly, JSON output) on REPO's working tree.
Used by C15 (can a PskBundle be put together other than through `new`?) and C17 (evidence: the public surface the
workloads were written for, and anything that has appeared since)."""
import json
import os
import subprocess

from lib import framework as fw


def rustdoc_json(features=("--all-features",), timeout=1800):
    """-> (dict, None) or (None, reason)"""
    tdir = os.path.join(fw.VERIF, "target", "rustdoc")
    cmd = ["cargo", "+nightly", "rustdoc", "--offline", "--lib", "--target-dir", tdir] + list(features) + [
        "--", "-Z", "unstable-options", "--output-format", "json"]
    e = dict(fw.BASE_ENV)
    e["RUSTFLAGS"] = ""
    try:
        p = subprocess.run(cmd, cwd=fw.REPO, env=e, stdout=subprocess.PIPE, stderr=subprocess.STDOUT, text=True, timeout=timeout)
    except subprocess.TimeoutExpired:
        return None, "rustdoc: watchdog"
    path = os.path.join(tdir, "doc", "hpke.json")
    if p.returncode != 0 or not os.path.exists(path):
        return None, "rustdoc failed: " + p.stdout[-400:]
    with open(path) as fh:
        return json.load(fh), None


def _kind(it):
    inner = it.get("inner")
    return next(iter(inner)) if isinstance(inner, dict) else str(inner)


def struct_fields(d, name):
    """[(field name, is_public)] of the local struct `name` (named fields; tuple fields are called 0, 1, ...)"""
    idx = d["index"]
    for it in idx.values():
        if it.get("crate_id") == 0 and it.get("name") == name and _kind(it) == "struct":
            k = it["inner"]["struct"]["kind"]
            ids = []
            if "plain" in k:
                ids = k["plain"]["fields"]
                hidden = k["plain"].get("has_stripped_fields", False)
            elif "tuple" in k:
                ids = [i for i in k["tuple"] if i is not None]
                hidden = any(i is None for i in k["tuple"])
            else:
                hidden = False
            out = []
            for i in ids:
                f = idx.get(str(i)) or idx.get(i)
                if f is not None:
                    out.append((f.get("name"), f.get("visibility") == "public"))
            return out, hidden
    return None, None


def surface(d):
    """sorted list of facts about the public surface: public items by path, public methods of inherent impls,
    trait impls for local types (blanket and auto impls left out)"""
    idx = d["index"]
    paths = d.get("paths", {})
    facts = set()

    def tyname(t):
        if isinstance(t, dict):
            if "resolved_path" in t:
                return t["resolved_path"].get("path") or t["resolved_path"].get("name") or "?"
            if "generic" in t:
                return t["generic"]
            if "borrowed_ref" in t:
                return "&" + tyname(t["borrowed_ref"]["type"])
            return next(iter(t))
        return str(t)
    for id_, it in idx.items():
        if it.get("crate_id") != 0:
            continue
        k = _kind(it)
        if k == "impl":
            im = it["inner"]["impl"]
            if im.get("is_synthetic") or im.get("blanket_impl") is not None:
                continue
            target = tyname(im.get("for"))
            if im.get("trait") is None:
                for mid in im.get("items", []):
                    m = idx.get(str(mid)) or idx.get(mid)
                    if m is not None and m.get("visibility") == "public":
                        facts.add("method %s::%s" % (target, m.get("name")))
            else:
                facts.add("impl %s for %s" % (im["trait"].get("path") or im["trait"].get("name"), target))
        elif it.get("visibility") == "public" and k in ("struct", "enum", "trait", "function", "module", "constant", "type_alias", "static", "union", "macro"):
            p = paths.get(id_) or paths.get(str(id_))
            facts.add("%s %s" % (k, "::".join(p["path"]) if p else it.get("name")))
        elif k == "struct_field" and it.get("visibility") == "public":
            facts.add("public field %s (item %s)" % (it.get("name"), id_))
    # public fields with their owner
    out = {f for f in facts if not f.startswith("public field ")}
    for it in idx.values():
        if it.get("crate_id") == 0 and _kind(it) == "struct":
            fl, _ = struct_fields(d, it.get("name"))
            for fname, pub in fl or []:
                if pub:
                    out.add("public field %s.%s" % (it.get("name"), fname))
    return sorted(out)


def crate_features():
    """cargo features the crate under test declares (the generated probes enable all of them except `default`)"""
    import re
    txt = open(os.path.join(fw.REPO, "Cargo.toml")).read()
    m = re.search(r"^\[features\]\s*$(.*?)(^\[|\Z)", txt, re.M | re.S)
    if not m:
        return []
    return [n for n in re.findall(r"^([A-Za-z0-9_-]+)\s*=", m.group(1), re.M) if n != "default"]


def run_probe(workdir, name, main_rs, extra_deps="", hooks=False, features=None, timeout=1800):
    """Writes a one-file binary crate depending on the crate under test, builds and runs it.
    -> (compiled: bool, stdout+stderr)"""
    cdir = os.path.join(workdir, name)
    os.makedirs(os.path.join(cdir, "src"), exist_ok=True)
    feats = features if features is not None else crate_features()
    with open(os.path.join(cdir, "Cargo.toml.in"), "w") as fh:
        fh.write('[package]\nname = "hpke-verif-probe-%s"\nversion = "0.0.0"\nedition = "2021"\npublish = false\n\n[dependencies]\n'
                 'hpke = { path = "@REPO@", default-features = false, features = [%s] }\n%s\n[workspace]\n' % (name, ", ".join('"%s"' % f for f in feats), extra_deps))
    with open(os.path.join(cdir, "src", "main.rs"), "w") as fh:
        fh.write(main_rs)
    fw.prepare_crate(cdir)
    e = dict(fw.BASE_ENV)
    e["RUSTFLAGS"] = ("--cfg %s" % fw.GUARD) if hooks else ""
    p = subprocess.run(["cargo", "run", "--offline", "--target-dir", os.path.join(fw.VERIF, "target", "probe-hooks" if hooks else "probe")], cwd=cdir, env=e,
                       stdout=subprocess.PIPE, stderr=subprocess.STDOUT, text=True, timeout=timeout)
    return ("PROBE_STARTED" in p.stdout), p.stdout


PRIMS = {"u8", "u16", "u32", "u64", "u128", "usize", "i8", "i16", "i32", "i64", "i128", "isize", "bool"}


def plain_callables(d):
    """{fact: (owner type or None, function name, [primitive parameter types])} for public functions that take no
    `self` and only integers / booleans: the shape of a process-wide setter"""
    idx = d["index"]
    out = {}

    def sig_of(fn):
        ins = fn["inner"]["function"]["sig"]["inputs"]
        if any(n == "self" for n, _ in ins):
            return None
        tys = []
        for _, t in ins:
            if isinstance(t, dict) and t.get("primitive") in PRIMS:
                tys.append(t["primitive"])
            else:
                return None
        if fn["inner"]["function"]["generics"]["params"]:
            return None
        return tys
    for it in idx.values():
        if it.get("crate_id") != 0 or _kind(it) != "impl":
            continue
        im = it["inner"]["impl"]
        if im.get("trait") is not None or im.get("is_synthetic") or im.get("blanket_impl") is not None:
            continue
        f = im.get("for")
        owner = f.get("resolved_path", {}).get("path") if isinstance(f, dict) else None
        if owner is None:
            continue
        if any("type" in p.get("kind", {}) or "const" in p.get("kind", {}) for p in im.get("generics", {}).get("params", [])):
            continue   # generic owner: the call would need type arguments nobody can guess
        for mid in im.get("items", []):
            m = idx.get(str(mid)) or idx.get(mid)
            if m is None or m.get("visibility") != "public" or _kind(m) != "function":
                continue
            tys = sig_of(m)
            if tys is not None:
                out["method %s::%s" % (owner, m["name"])] = (owner.split("::")[-1], m["name"], tys)
    paths = d.get("paths", {})
    for id_, it in idx.items():
        if it.get("crate_id") == 0 and _kind(it) == "function" and it.get("visibility") == "public" and (paths.get(id_) or paths.get(str(id_))):
            tys = sig_of(it)
            if tys is not None:
                out["function %s" % "::".join((paths.get(id_) or paths.get(str(id_)))["path"])] = (None, it["name"], tys)
    return out
