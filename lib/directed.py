"""Directed inputs that random generation never produces, constructed with the reference arithmetic.
The reference is used here to FIND inputs; judging the real code's answer is the monitors' business."""
from ref import curves

P = curves.P25519
L_CURVE = 2**252 + 27742317777372353535851937790883648493
L_TWIST = 2**253 - 55484635554744707071703875581767296995


def x25519_raw(k, u):
    """Montgomery ladder with an arbitrary (unclamped) scalar; returns the u-coordinate as int (0 = identity)"""
    x1 = u % P
    x2, z2, x3, z3 = 1, 0, x1, 1
    swap = 0
    for t in range(k.bit_length() - 1, -1, -1):
        kt = (k >> t) & 1
        swap ^= kt
        if swap:
            x2, x3 = x3, x2
            z2, z3 = z3, z2
        swap = kt
        A = (x2 + z2) % P
        AA = A * A % P
        B = (x2 - z2) % P
        BB = B * B % P
        E = (AA - BB) % P
        C = (x3 + z3) % P
        D = (x3 - z3) % P
        DA = D * A % P
        CB = C * B % P
        x3 = (DA + CB) % P
        x3 = x3 * x3 % P
        z3 = (DA - CB) % P
        z3 = x1 * z3 * z3 % P
        x2 = AA * BB % P
        z2 = E * (AA + curves.A24 * E) % P
    if swap:
        x2, x3 = x3, x2
        z2, z3 = z3, z2
    return x2 * pow(z2, P - 2, P) % P


def x25519_peer_for_output(sk_bytes, out_int):
    """A 32-byte peer key E with X25519(sk, E) == out, or None if `out` is not the u-coordinate of a point of
    prime order on the curve or its twist (the clamped scalar clears the cofactor, so only those are reachable)."""
    if out_int in (0, 1, P - 1) or out_int >= P:
        return None
    k = int.from_bytes(curves.clamp(sk_bytes), "little")
    for order in (L_CURVE, L_TWIST):
        if x25519_raw(order, out_int) == 0:
            e = x25519_raw(pow(k, -1, order), out_int)
            enc = e.to_bytes(32, "little")
            if curves.x25519(sk_bytes, enc) == out_int.to_bytes(32, "little"):
                return enc
    return None


# byte patterns of a 32-byte little-endian DH output: positions that must be zero
X25519_OUTPUT_PATTERNS = {
    "low_half_of_every_limb_zero": [0, 1, 2, 3, 8, 9, 10, 11, 16, 17, 18, 19, 24, 25, 26, 27],
    "high_half_of_every_limb_zero": [4, 5, 6, 7, 12, 13, 14, 15, 20, 21, 22, 23, 28, 29, 30, 31],
    "first_16_bytes_zero": list(range(0, 16)),
    "last_16_bytes_zero": list(range(16, 32)),
    "first_24_bytes_zero": list(range(0, 24)),
    "last_24_bytes_zero": list(range(8, 32)),
    "only_first_byte_nonzero": list(range(1, 32)),
    "only_last_byte_nonzero": list(range(0, 31)),
    "even_bytes_zero": list(range(0, 32, 2)),
    "odd_bytes_zero": list(range(1, 32, 2)),
    "first_limb_zero": list(range(0, 8)),
    "last_limb_zero": list(range(24, 32)),
}
# every proper non-empty subset of the four 64-bit limbs zeroed (a zero check that reads a limb twice, or skips
# one, sees "all zero" for exactly one of these)
for _mask in range(1, 15):
    X25519_OUTPUT_PATTERNS["limbs_zero_mask_%x" % _mask] = [8 * l + j for l in range(4) if (_mask >> l) & 1 for j in range(8)]


def x25519_structured_outputs(rnd, sk_bytes, tries=400):
    """yields (pattern name, enc bytes, out bytes): peers whose DH value with sk has many zero bytes but is not zero"""
    for name, zeros in X25519_OUTPUT_PATTERNS.items():
        for _ in range(tries):
            b = bytearray(rnd.getrandbits(8) for _ in range(32))
            for z in zeros:
                b[z] = 0
            b[31] &= 0x7F
            out = int.from_bytes(b, "little")
            if out < 2:
                continue
            enc = x25519_peer_for_output(sk_bytes, out)
            if enc is not None:
                yield name, enc, bytes(b)
                break


def nist_peer_for_dh_x(c, d, x_target):
    """A public key Q' on curve c with (d * Q').x == x_target, or None if x_target is not on the curve"""
    y = c.lift_x(x_target)
    if y is None:
        return None
    T = (x_target % c.p, y)
    return c.mul(pow(d, -1, c.n), T)


def nist_special_dh_targets(c, rnd):
    """x-coordinates a careless serializer / validity check gets wrong: 0, tiny, leading zero bytes"""
    W = c.nbytes
    out = []
    x = 0
    while len(out) < 3:
        if c.lift_x(x) is not None:
            out.append(("x_%d" % x if x else "x_zero", x))
        x += 1
    for k in (1, 2, 4, W // 2):
        for _ in range(200):
            x = rnd.randrange(1, 1 << (8 * (W - k)))
            if c.lift_x(x) is not None:
                out.append(("x_with_%d_leading_zero_bytes" % k, x))
                break
    # x between the group order and the field prime (a "canonical" check against the wrong modulus refuses it)
    for _ in range(400):
        x = rnd.randrange(c.n, c.p)
        if c.lift_x(x) is not None:
            out.append(("x_between_n_and_p", x))
            break
    for x in (c.p - 1, c.p - 2, c.p - 3, c.n, c.n + 1):
        if c.n <= x < c.p and c.lift_x(x) is not None:
            out.append(("x_edge_between_n_and_p", x))
    return out


def gcm_plaintext_for_tag(aead_id, key, nonce, aad, target_tag):
    """A 16-byte plaintext whose AES-GCM tag under (key, nonce, aad) is `target_tag` (e.g. all zero), or None.
    The tag is an affine function over GF(2) of the plaintext bits (for a fixed length), so 129 evaluations of the
    reference AEAD and a 128x128 elimination give the preimage.  Genuine messages with such tags occur with
    probability 2^-128; an implementation that treats an all-zero tag as 'unset' rejects them."""
    from ref import aead as refaead

    def tag_of(pt):
        return int.from_bytes(refaead.seal(aead_id, key, nonce, aad, pt)[-16:], "big")

    t0 = tag_of(bytes(16))
    want = t0 ^ int.from_bytes(target_tag, "big")
    cols = []
    for i in range(128):
        e = (1 << (127 - i)).to_bytes(16, "big")
        cols.append(tag_of(e) ^ t0)
    # solve sum_i x_i * cols[i] == want over GF(2): eliminate on (column vector, combination mask) pairs
    basis = {}  # leading bit -> (vector, mask)
    for i, v in enumerate(cols):
        m = 1 << i
        while v:
            hb = v.bit_length() - 1
            if hb in basis:
                bv, bm = basis[hb]
                v ^= bv
                m ^= bm
            else:
                basis[hb] = (v, m)
                break
    x = 0
    v = want
    while v:
        hb = v.bit_length() - 1
        if hb not in basis:
            return None
        bv, bm = basis[hb]
        v ^= bv
        x ^= bm
    pt = 0
    for i in range(128):
        if (x >> i) & 1:
            pt |= 1 << (127 - i)
    pt = pt.to_bytes(16, "big")
    if refaead.seal(aead_id, key, nonce, aad, pt)[-16:] != target_tag:
        return None
    return pt
